#pragma once
/* verification stub of <mpi.h>: only what distributed/mpi.c uses */
typedef int MPI_Comm; typedef int MPI_Request; typedef int MPI_Datatype; typedef int MPI_Op; typedef int MPI_Errhandler; typedef int MPI_Message;
typedef struct { int MPI_SOURCE, MPI_TAG, MPI_ERROR; int _count; } MPI_Status;
#define MPI_COMM_WORLD 0
#define MPI_REQUEST_NULL (-1)
#define MPI_BYTE 1
#define MPI_UINT32_T 2
#define MPI_DOUBLE 3
#define MPI_SUM 1
#define MPI_MIN 2
#define MPI_ANY_SOURCE (-1)
#define MPI_STATUS_IGNORE ((MPI_Status *)0)
#define MPI_THREAD_SINGLE 0
#define MPI_THREAD_MULTIPLE 3
#define MPI_MAX_ERROR_STRING 256
typedef void MPI_Comm_errhandler_function(MPI_Comm *, int *, ...);
int MPI_Init_thread(int *, char ***, int, int *); int MPI_Finalize(void);
int MPI_Comm_create_errhandler(MPI_Comm_errhandler_function *, MPI_Errhandler *); int MPI_Comm_set_errhandler(MPI_Comm, MPI_Errhandler);
int MPI_Comm_get_errhandler(MPI_Comm, MPI_Errhandler *); int MPI_Errhandler_free(MPI_Errhandler *); int MPI_Error_string(int, char *, int *);
int MPI_Comm_rank(MPI_Comm, int *); int MPI_Comm_size(MPI_Comm, int *);
int MPI_Isend(const void *, int, MPI_Datatype, int, int, MPI_Comm, MPI_Request *); int MPI_Request_free(MPI_Request *);
int MPI_Improbe(int, int, MPI_Comm, int *, MPI_Message *, MPI_Status *); int MPI_Mprobe(int, int, MPI_Comm, MPI_Message *, MPI_Status *);
int MPI_Get_count(const MPI_Status *, MPI_Datatype, int *); int MPI_Mrecv(void *, int, MPI_Datatype, MPI_Message *, MPI_Status *);
int MPI_Ireduce_scatter_block(const void *, void *, int, MPI_Datatype, MPI_Op, MPI_Comm, MPI_Request *); int MPI_Iallreduce(const void *, void *, int, MPI_Datatype, MPI_Op, MPI_Comm, MPI_Request *);
int MPI_Test(MPI_Request *, int *, MPI_Status *); int MPI_Barrier(MPI_Comm); int MPI_Send(const void *, int, MPI_Datatype, int, int, MPI_Comm);
