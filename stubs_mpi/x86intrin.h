#pragma once
/* environment stub: the time-stamp counter returns an arbitrary value */
#ifdef VERIF_CBMC
unsigned long long nondet_verif_tsc(void);
static inline unsigned long long __rdtsc(void){ return nondet_verif_tsc(); }
#else
static inline unsigned long long __rdtsc(void){ return 0; }
#endif
