#pragma once
/* environment stub: spin-loop hint is a no-op */
static inline void _mm_pause(void) {}
