#!/usr/bin/env python3
"""store a verified seed: tools_seed_store.py <worktree> <name> <property> '<caught_by text>'"""
import json, os, shutil, sys
wt, name, prop, caught = sys.argv[1:5]
dst = os.path.join('/verif/seeded', name)
os.makedirs(dst, exist_ok=True)
for f in os.listdir(os.path.join(wt, '_seed')):
    if f in ('patch.diff', 'demo.c', 'run_demo.sh', 'meta.json') or f.startswith('demo'):
        if os.path.getsize(os.path.join(wt, '_seed', f)) < 200000:
            shutil.copy(os.path.join(wt, '_seed', f), dst)
meta = {}
try:
    meta = json.load(open(os.path.join(dst, 'meta.json')))
except Exception as e:
    meta = {'agent_meta_unreadable': str(e)}
vlog = ''
p = wt.rstrip('/') + '.verify.log'
if os.path.exists(p):
    vlog = ''.join(l for l in open(p) if not l.startswith('WARNING'))[-2500:]
meta.update({'property': prop, 'breaks': prop, 'what_i_ran': 'tools_seed.sh verify (build with change; demo with change -> non-zero; demo on pristine git-archive copy -> 0; ctest -j6 + rerun-failed) and tools_seed.sh try (git apply on /repo, ./check, git checkout)',
             'my_verification_log_tail': vlog, 'caught_by': caught})
json.dump(meta, open(os.path.join(dst, 'meta.json'), 'w'), indent=1)
print('stored', dst, sorted(os.listdir(dst)))
