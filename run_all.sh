#!/bin/bash
# run every check's quick tier sequentially (evidence is rewritten by each)
cd /verif
for p in C16 C17 C18 C14 C07 C05 C13 C12 C10 C15 C19 C09 C11 C04 C03 C02 C20 C01 C06; do
  /usr/bin/time -f "$p wall %es" ./check $p --tier quick 2>&1 | grep -v "^WARNING" | grep "tier=\|VIOLATION\|NO-VERDICT\|wall\|KNOWN" 
done
