#!/bin/bash
# usage: tools_seed.sh verify <worktree> | try <worktree-or-seeddir> <PROP> [check args]
# verify: in the scratch worktree, confirm build + demo fails with change / passes without + ctest
# try: apply the seed's patch.diff to /repo, run ./check PROP, revert
set -u
cmd=$1; wt=$2
case $cmd in
verify)
  cd $wt || exit 2
  git diff -- src > _seed/patch.check.diff
  echo "== build with change"; cmake --build _b 2>&1 | tail -1
  echo "== demo WITH change"; bash _seed/run_demo.sh $wt > _seed/demo_with.log 2>&1; echo "exit=$?"; tail -3 _seed/demo_with.log
  rm -rf /tmp/wt/_pristine_$$; mkdir -p /tmp/wt/_pristine_$$; git archive HEAD | tar -x -C /tmp/wt/_pristine_$$
  echo "== demo WITHOUT change"; bash _seed/run_demo.sh /tmp/wt/_pristine_$$ > _seed/demo_without.log 2>&1; echo "exit=$?"; tail -3 _seed/demo_without.log
  rm -rf /tmp/wt/_pristine_$$
  echo "== ctest with change"; ctest --test-dir _b -j6 --timeout 900 2>&1 | tail -8 > _seed/ctest_mine.log; ctest --test-dir _b --rerun-failed --timeout 900 2>&1 | tail -6 >> _seed/ctest_mine.log; tail -8 _seed/ctest_mine.log
  ;;
try)
  prop=$3; shift 3
  pd=$wt/patch.diff; [ -f $pd ] || pd=$wt/_seed/patch.diff
  git -C /repo apply $pd || { echo "patch does not apply"; exit 2; }
  cd /verif && ./check $prop --no-evidence "$@"; rc=$?
  git -C /repo checkout -- . ; git -C /repo status --short | grep -v _build
  echo "check exit=$rc"
  ;;
esac
