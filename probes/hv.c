#include <mm/buddy/buddy.c>
#include <mm/buddy/ckpt.c>
struct simulation_configuration global_config;
void vlogger(enum log_level l, char *f, unsigned ln, const char *fmt, ...){(void)l;(void)f;(void)ln;(void)fmt;}
unsigned nondet_u(void);
#define NNODES (1U << (B_TOTAL_EXP - B_BLOCK_EXP + 1))
#define NINT ((NNODES/2) - 1)
static unsigned char expo[NNODES];
static void mk_expo(void){ unsigned char e=B_TOTAL_EXP; for(unsigned i=0;i<NNODES-1;i++){ expo[i]=e; e -= is_power_of_2(i+2);} }
static _Bool inv(const unsigned char *lg){
  _Bool ok = 1;
  for(unsigned i=0;i<NINT;i++){
    unsigned char e=expo[i], v=lg[i], l=lg[2*i+1], r=lg[2*i+2];
    _Bool full = (l==e-1 && r==e-1);
    if(v==e) ok = ok && full;
    else if(v==0) ok = ok && (full || (l==0 && r==0));
    else ok = ok && (v < e && v >= B_BLOCK_EXP && v == (l>r?l:r) && !full);
  }
  for(unsigned i=NINT;i<NNODES-1;i++){ unsigned char v=lg[i]; ok = ok && (v==0 || v==B_BLOCK_EXP); }
  return ok;
}
static unsigned total, last_end, nvis; static unsigned wit_off; static unsigned wit_hits;
#define rec(o,l) __extension__({ __CPROVER_assert((o) >= last_end, "ascending, disjoint"); __CPROVER_assert((o)%(l)==0 && (o)+(l) <= (1U<<B_TOTAL_EXP), "inside"); last_end=(o)+(l); total+=(l); nvis++; if(wit_off>=(o) && wit_off<(o)+(l)) wit_hits++; })
void harness(void){
  mk_expo();
  static struct buddy_state s;
  for(unsigned i=0;i<NNODES;i++) s.longest[i]=(unsigned char)nondet_u();
  __CPROVER_assume(inv(s.longest));
  wit_off = nondet_u(); __CPROVER_assume(wit_off < (1U<<B_TOTAL_EXP));
  /* is wit_off inside a live block? walk down from root */
  _Bool live=0; { unsigned i=0; for(unsigned d=0; d<=B_TOTAL_EXP-B_BLOCK_EXP; d++){ if(s.longest[i]==0){ live=1; break;} if(i>=NINT) break; unsigned half = 1U<<(expo[i]-1); unsigned base = ((i+1)<<expo[i]) - (1U<<B_TOTAL_EXP); i = 2*i+1 + ((wit_off-base) >= half); } }
  buddy_tree_visit(s.longest, rec);
  __CPROVER_assert(wit_hits == (live?1:0), "visit covers exactly the live bytes, once");
#ifdef WITNESS
  __CPROVER_assert(0,"witness");
#endif
}
