/* lemma L1: match_straggler_msg on a symbolic history */
#include <lp/process.c>
#include <stdlib.h>
struct simulation_configuration global_config;
__thread rid_t rid; nid_t n_nodes=1, nid; uint64_t lid_node_first; lp_id_t n_lps_node; __thread struct lp_ctx *current_lp; struct lp_ctx *lps;
/* everything process.c calls but L1 does not reach is left undefined on purpose (drop-unused) */
#ifndef H
#define H 6
#endif
unsigned nondet_u(void); double nondet_d(void); unsigned char nondet_uc(void);
static struct lp_msg *P[H+1];
#define M(k) (*P[k])
void harness(void){
  struct process_ctx pc; struct lp_msg *items[H];
  unsigned n = nondet_u(); __CPROVER_assume(n>=1 && n<=H);
  for(unsigned k=0;k<H+1;k++){ P[k]=malloc(sizeof(struct lp_msg)); __CPROVER_assume(P[k]); M(k).dest_t=nondet_d(); __CPROVER_assume(M(k).dest_t>=0.0 && M(k).dest_t<=1e6); M(k).raw_flags=nondet_u(); M(k).m_type=nondet_u(); M(k).pl_size=nondet_u()%3; M(k).pl[0]=nondet_uc(); M(k).pl[1]=nondet_uc(); }
  unsigned tag[H];
  for(unsigned i=0;i<H;i++){ tag[i]=nondet_u()%3; if(i==0||i==n-1) tag[i]=0; items[i]=(struct lp_msg*)((uintptr_t)&M(i) | tag[i]); }
  /* processed entries pairwise ordered: no later one before an earlier one */
  for(unsigned i=0;i<H;i++) for(unsigned j=i+1;j<H;j++) if(j<n && !tag[i] && !tag[j]) __CPROVER_assume(!msg_is_before(&M(j),&M(i)));
  pc.p_msgs.items=items; pc.p_msgs.count=n; pc.p_msgs.capacity=H;
  struct lp_msg *s=&M(H);
  __CPROVER_assume(msg_is_before(s, &M(n-1)));   /* caller's precondition: s is a straggler w.r.t. the last event */
  array_count_t r = match_straggler_msg(&pc, s);
  /* oracle: smallest index r such that every processed entry at index >= r is after s, and r is just after a processed entry not after s (or 0) */
  __CPROVER_assert(r<=n-1, "cut inside history");
  for(unsigned i=0;i<H;i++) if(i<n && !tag[i]){ if(i>=r) __CPROVER_assert(msg_is_before(s,&M(i)), "every kept-out event is after the straggler"); }
  if(r>0){ unsigned q=r-1; unsigned tq=tag[q]; struct lp_msg *mq=&M(q); _Bool bq=msg_is_before(s,mq); __CPROVER_assert(tq==0, "entry before the cut is processed"); __CPROVER_assert(!bq, "entry before the cut is not after the straggler"); }
  else { __CPROVER_assert(msg_is_before(s,&M(0)) || n==1, "cut at 0 only if the first event is after the straggler"); }
#ifdef WITNESS
  __CPROVER_assert(0,"witness");
#endif
}
