/* C19 purity with RandomRange as a contract stub: a deterministic function of the caller's generator state (C18 discharges the range contract) */
#include <lib/topology/topology.c>
#include <lp/lp.h>
struct simulation_configuration global_config;
__thread struct lp_ctx *current_lp; __thread rid_t rid; nid_t n_nodes=1, nid; uint64_t lid_node_first; lp_id_t n_lps_node;
unsigned long nondet_ul(void); unsigned nondet_u(void);
unsigned __CPROVER_uninterpreted_draw(unsigned long s);
int RandomRange(int mn, int mx){ struct rng_ctx *c=current_lp->rng_ctx; unsigned d=__CPROVER_uninterpreted_draw(c->state[0]); c->state[0]++; return mn + (int)(d % (unsigned)(mx-mn+1)); }
double Random(void){ struct rng_ctx *c=current_lp->rng_ctx; unsigned d=__CPROVER_uninterpreted_draw(c->state[0]); c->state[0]++; return (double)(d%1024)/1024.0; }
static void any_perm4(enum topology_direction *a){ /* arbitrary permutation of {E,W,N,S}: what earlier calls by any LP may have left behind */
  unsigned p0=nondet_u()%4,p1=nondet_u()%4,p2=nondet_u()%4,p3=nondet_u()%4; __CPROVER_assume(p0!=p1&&p0!=p2&&p0!=p3&&p1!=p2&&p1!=p3&&p2!=p3);
  static const enum topology_direction base[4]={DIRECTION_E,DIRECTION_W,DIRECTION_N,DIRECTION_S}; a[0]=base[p0];a[1]=base[p1];a[2]=base[p2];a[3]=base[p3]; }
void harness(void){
  struct topology t; t.geometry=GEOM; t.adjacency=0; t.width=3; t.height=3; t.regions=9;
  struct lp_ctx lpA; struct rng_ctx rA, r0; r0.state[0]=nondet_ul(); lpA.rng_ctx=&rA; current_lp=&lpA;
  lp_id_t from = nondet_u()%9;
  any_perm4(directions_square_torus); rA=r0; lp_id_t first = GetReceiver(from,&t,DIRECTION_RANDOM);
  any_perm4(directions_square_torus); rA=r0; lp_id_t second = GetReceiver(from,&t,DIRECTION_RANDOM);
  __CPROVER_assert(first==second, "random receiver is a function of the caller's generator state only");
}
