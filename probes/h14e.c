#include <lp/lp.c>
#include <core/core.c>
struct simulation_configuration global_config;
unsigned nondet_u(void);
void vlogger(enum log_level l, char *f, unsigned ln, const char *fmt, ...){(void)l;(void)f;(void)ln;(void)fmt;}
void harness(void){
  unsigned L = nondet_u(), n = nondet_u(), r = nondet_u(), w = nondet_u();
#ifdef CN
  unsigned N = CN, T = CT;
#else
  unsigned N = nondet_u(), T = nondet_u();
#endif
  __CPROVER_assume(L>=1 && L<=MAXLP && N>=1 && N<=MAXN && T>=1 && T<=MAXN && N<=L && n<N && w<L);
  global_config.lps = L; n_nodes = N; nid = n;
  lid_node_first = partition_start(nid, n_nodes, lid_to_nid, 0, global_config.lps);
  n_lps_node = partition_start(nid + 1, n_nodes, lid_to_nid, 0, global_config.lps) - lid_node_first;
  __CPROVER_assert(n_lps_node>=1, "node non-empty");
  __CPROVER_assert((n==0) == (lid_node_first==0), "node 0 starts at 0");
  __CPROVER_assert((n==N-1) ? lid_node_first+n_lps_node==L : lid_node_first+n_lps_node<L, "last node ends at L");
  _Bool in_node = w>=lid_node_first && w<lid_node_first+n_lps_node;
  __CPROVER_assert(in_node == (lid_to_nid((lp_id_t)w)==(nid_t)n), "node range == preimage of routing");
#ifdef THREADS
  unsigned TT = n_lps_node < T ? n_lps_node : T; global_config.n_threads = TT;
  __CPROVER_assume(r < TT); rid = r;
  lid_thread_first = partition_start(rid, global_config.n_threads, lid_to_rid, lid_node_first, n_lps_node);
  lid_thread_end = partition_start(rid + 1, global_config.n_threads, lid_to_rid, lid_node_first, n_lps_node);
  __CPROVER_assert(lid_thread_end > lid_thread_first, "no idle thread");
  __CPROVER_assert((r==0) == (lid_thread_first==lid_node_first), "thread 0 starts at node first");
  __CPROVER_assert((r==TT-1) == (lid_thread_end==lid_node_first+n_lps_node), "last thread ends at node end");
  _Bool in_thr = w>=lid_thread_first && w<lid_thread_end;
  if(in_node) __CPROVER_assert(in_thr == (lid_to_rid((lp_id_t)w)==r), "thread range == preimage of routing");
#endif
}
