/* heap induction for the q_elem instantiation used by msg_queue.c */
#include <datatypes/msg_queue.c>
#include <stdlib.h>
struct simulation_configuration global_config;
__thread rid_t rid; nid_t n_nodes=1, nid; uint64_t lid_node_first; lp_id_t n_lps_node;
void vlogger(enum log_level l, char *f, unsigned ln, const char *fmt, ...){(void)l;(void)f;(void)ln;(void)fmt;}
void msg_allocator_free(struct lp_msg *m){(void)m;}
void *realloc(void *p, size_t n){ (void)p; (void)n; __CPROVER_assert(0, "array growth not needed within the bound"); __CPROVER_assume(0); return 0; }
unsigned nondet_u(void); double nondet_d(void);
#ifndef N
#define N 7
#endif
static struct lp_msg *P[N+1];
static _Bool is_heap(unsigned n){ _Bool ok=1; for(unsigned i=1;i<N+1;i++) if(i<n) ok = ok && !q_elem_is_before(mqp.items[i], mqp.items[(i-1)/2]); return ok; }
void harness(void){
  static struct q_elem store[16];
  mqp.items=store; mqp.capacity=16;
  unsigned n = nondet_u(); __CPROVER_assume(n<=N);
  for(unsigned k=0;k<N+1;k++){ P[k]=malloc(sizeof(struct lp_msg)); __CPROVER_assume(P[k]); P[k]->dest_t=nondet_d(); __CPROVER_assume(P[k]->dest_t>=0.0 && P[k]->dest_t<1e9); P[k]->raw_flags=nondet_u()&3; P[k]->m_type=nondet_u()&3; P[k]->pl_size=0; }
  for(unsigned i=0;i<N;i++){ store[i].m=P[i]; store[i].t=P[i]->dest_t; }
  mqp.count=n; __CPROVER_assume(is_heap(n));
  if(nondet_u()&1){
    struct q_elem qe={.t=P[N]->dest_t,.m=P[N]};
    heap_insert(mqp, q_elem_is_before, qe);
    __CPROVER_assert(mqp.count==n+1 && is_heap(n+1), "insert keeps the heap property");
    unsigned w=nondet_u()%(N+1); unsigned c=0; for(unsigned i=0;i<N+1;i++) if(i<n+1 && mqp.items[i].m==P[w]) c++;
    __CPROVER_assert(c == ((w<n || w==N)?1u:0u), "insert keeps the multiset");
  } else if(n>0){
    struct q_elem r = heap_extract(mqp, q_elem_is_before);
    __CPROVER_assert(mqp.count==n-1 && is_heap(n-1), "extract keeps the heap property");
    for(unsigned i=0;i<N;i++) if(i<n-1) __CPROVER_assert(!q_elem_is_before(mqp.items[i], r), "extracted element is not after any remaining one");
    unsigned w=nondet_u()%N; unsigned c=0; for(unsigned i=0;i<N;i++) if(i<n-1 && mqp.items[i].m==P[w]) c++;
    __CPROVER_assert(c + (r.m==P[w]?1u:0u) == (w<n?1u:0u), "extract keeps the multiset");
  }
#ifdef WITNESS
  __CPROVER_assert(0,"witness");
#endif
}
