#include <lib/random/random.c>
struct simulation_configuration global_config;
__thread struct lp_ctx *current_lp;
unsigned long nondet_ul(void);
void harness(void){
  struct lp_ctx lp; struct rng_ctx r, other;
  for(int i=0;i<4;i++){ r.state[i]=nondet_ul(); other.state[i]=nondet_ul(); }
  struct rng_ctx other0 = other;
  lp.rng_ctx=&r; current_lp=&lp;
  double d = Random();
  __CPROVER_assert(d >= 0.0 && d < 1.0, "Random in [0,1)");
  __CPROVER_assert(other.state[0]==other0.state[0] && other.state[3]==other0.state[3], "frame");
#ifdef WITNESS
  __CPROVER_assert(0,"witness");
#endif
}
