#include <mm/buddy/buddy.c>
#include <stdlib.h>
unsigned nondet_u(void); unsigned char nondet_uc(void);
#define NNODES (1U << (B_TOTAL_EXP - B_BLOCK_EXP + 1))
#define NINT ((NNODES/2) - 1)   /* internal nodes 0..NINT-1 */
static unsigned char expo[NNODES];
static void mk_expo(void){ unsigned char e=B_TOTAL_EXP; for(unsigned i=0;i<NNODES-1;i++){ expo[i]=e; e -= is_power_of_2(i+2);} }
static _Bool inv(const struct buddy_state *s){
  _Bool ok = 1;
  for(unsigned i=0;i<NINT;i++){
    unsigned char e=expo[i], v=s->longest[i], l=s->longest[2*i+1], r=s->longest[2*i+2];
    _Bool full = (l==e-1 && r==e-1);
    if(v==e) ok = ok && full;
    else if(v==0) ok = ok && (full || (l==0 && r==0));
    else ok = ok && (v < e && v >= B_BLOCK_EXP && v == (l>r?l:r) && !full);
  }
  for(unsigned i=NINT;i<NNODES-1;i++){ unsigned char v=s->longest[i]; ok = ok && (v==0 || v==B_BLOCK_EXP); }
  return ok;
}
/* is node j an allocation root */
static _Bool is_root(const struct buddy_state *s, unsigned j){
  if(s->longest[j]) return 0;
  if(j>=NINT) return 1;
  return s->longest[2*j+1]!=0 || s->longest[2*j+2]!=0;
}
static unsigned off_of(unsigned j){ return ((j+1) << expo[j]) - (1U<<B_TOTAL_EXP); }
void harness_malloc(void){
  mk_expo();
  struct buddy_state *s = malloc(sizeof *s); __CPROVER_assume(s);
  __CPROVER_assume(inv(s));
  unsigned j = nondet_u(); __CPROVER_assume(j < NNODES-1); __CPROVER_assume(is_root(s,j));
  /* j must have no zero strict ancestor chain ambiguity: pick maximal root: parent is not (0 with children 0,0)... roots are where the children are nonzero */
  unsigned char req = nondet_uc(); __CPROVER_assume(req>=B_BLOCK_EXP && req<=B_TOTAL_EXP);
  unsigned char before_root0 = s->longest[0];
  void *p = buddy_malloc(s, req);
  if(p){
    unsigned o = (unsigned)((unsigned char*)p - s->base_mem);
    __CPROVER_assert(o % (1U<<req) == 0 && o + (1U<<req) <= (1U<<B_TOTAL_EXP), "block inside arena and aligned");
    unsigned jo = off_of(j), jl = 1U<<expo[j];
    __CPROVER_assert(o + (1U<<req) <= jo || jo + jl <= o, "no overlap with a live block");
    __CPROVER_assert(is_root(s,j), "other block still live");
  } else __CPROVER_assert(before_root0 < req, "fails only when no space");
  __CPROVER_assert(inv(s), "invariant preserved");
#ifdef WITNESS
  __CPROVER_assert(0,"witness");
#endif
}
