#include <gvt/termination.c>
struct simulation_configuration global_config;
__thread rid_t rid; nid_t n_nodes=1, nid; uint64_t lid_node_first; lp_id_t n_lps_node; __thread struct lp_ctx *current_lp; struct lp_ctx *lps;
static unsigned bcast;
void mpi_control_msg_broadcast(enum msg_ctrl_code c){ (void)c; bcast++; }
unsigned nondet_u(void); double nondet_d(void); _Bool nondet_b(void);
#define NL 3
static _Bool pred_now[NL];
static bool committed_stub(lp_id_t me, const void *st){ (void)st; return pred_now[me]; }
static void dispatch_stub(lp_id_t me, simtime_t now, unsigned t, const void *c, unsigned s, void *st){(void)me;(void)now;(void)t;(void)c;(void)s;(void)st;}
/* ghost: held[i] = predicate held at an event at time tau[i] that is still in the history (or since init) */
void harness(void){
  static struct lp_ctx L[NL]; lps=L;
  global_config.committed=committed_stub; global_config.dispatcher=dispatch_stub; global_config.n_threads=1; global_config.termination_time=SIMTIME_MAX; n_nodes=1;
  _Bool held[NL]; unsigned cnt0=0;
  for(unsigned i=0;i<NL;i++){ L[i].termination_t=nondet_d(); __CPROVER_assume(L[i].termination_t>=0.0); held[i]= L[i].termination_t!=0.0; cnt0 += (L[i].termination_t==0.0); }
  lps_to_end = nondet_u(); max_t = nondet_d(); __CPROVER_assume(max_t>=0.0);
  atomic_store_explicit(&thr_to_end, 1, memory_order_relaxed); atomic_store_explicit(&nodes_to_end, 1, memory_order_relaxed);
  /* invariant J */
  __CPROVER_assume(lps_to_end == cnt0);
  for(unsigned i=0;i<NL;i++) if(L[i].termination_t!=0.0 && L[i].termination_t!=SIMTIME_MAX) __CPROVER_assume(max_t >= L[i].termination_t);
  unsigned op = nondet_u()%3; unsigned k = nondet_u()%NL; double t = nondet_d(); __CPROVER_assume(t>=0.0 && t<SIMTIME_MAX);
  if(op==0){ pred_now[k]=nondet_b(); termination_on_msg_process(&L[k], t); if(pred_now[k]) held[k]=1; }
  else if(op==1){ /* rollback caused by message at time t: events not before t are undone */
    termination_on_lp_rollback(&L[k], t); }
  else { double g=t; unsigned before=atomic_load_explicit(&thr_to_end, memory_order_relaxed); termination_on_gvt(g);
    if(atomic_load_explicit(&thr_to_end, memory_order_relaxed)!=before){ for(unsigned i=0;i<NL;i++) __CPROVER_assert(L[i].termination_t!=0.0 && (L[i].termination_t<g || L[i].termination_t==SIMTIME_MAX), "thread votes only when every LP terminated on a committed state"); } }
  unsigned cnt1=0; for(unsigned i=0;i<NL;i++) cnt1 += (L[i].termination_t==0.0);
  __CPROVER_assert(lps_to_end == cnt1, "J: lps_to_end counts exactly the LPs with termination_t == 0");
  if(op!=2) for(unsigned i=0;i<NL;i++) if(L[i].termination_t!=0.0 && L[i].termination_t!=SIMTIME_MAX) __CPROVER_assert(max_t >= L[i].termination_t, "J: max_t bounds finite termination times");
#ifdef WITNESS
  __CPROVER_assert(0,"witness");
#endif
}
