/* C05 (d) / C09 (b): the LP's generator context lives in rollbackable memory,
 * so a rollback replays the same random stream; and a whole
 * allocate-write-checkpoint-modify-restore script through the PUBLIC allocator
 * API on one LP gives back the checkpointed state.
 * Real code: lp/lp.c:lp_init (allocates the context with rs_malloc and seeds
 * it), mm/buddy/multi.c + buddy.c + ckpt.c (real take / restore),
 * lib/random/random.c + xxtea.c.  Concrete arena shape (built by the real
 * calls), symbolic seed, data and number of draws. */
#define VERIF_BYTE_COPIES
#define VERIF_NO_REALLOC
#include "env.h"
#include <stdlib.h>
#include <lp/lp.c>
#include <core/core.c>
#include <mm/buddy/buddy.c>
#include <mm/buddy/ckpt.c>
#include <mm/buddy/multi.c>
#include <lib/random/random.c>
#include <lib/random/xxtea.c>

struct simulation_configuration global_config;
static unsigned n_pinit;
void auto_ckpt_lp_init(struct auto_ckpt *a) { (void)a; }
void process_lp_init(struct lp_ctx *lp) { (void)lp; n_pinit++; }
void process_lp_fini(struct lp_ctx *lp) { (void)lp; }
void termination_lp_init(struct lp_ctx *lp) { (void)lp; }

static struct lp_ctx lp_store[1];

void harness(void)
{
	global_config.lps = 1;
	global_config.n_threads = 1;
	global_config.prng_seed = vin_u64();
	n_nodes = 1;
	nid = 0;
	rid = 0;
	lid_node_first = 0;
	n_lps_node = 1;
	lps = lp_store;
	lp_init(); /* real: allocator init, rs_malloc of the generator context, seeding */
	struct lp_ctx *lp = &lps[0];
	struct mm_state *mm = &lp->mm_state;
	VERIF_ASSERT(array_count(mm->buddies) == 1 && n_pinit == 1, "lp_init creates the LP's first arena for its generator context");
	struct buddy_state *b = array_get_at(mm->buddies, 0);
	unsigned char *rc = (unsigned char *)lp->rng_ctx;
	VERIF_ASSERT(rc >= b->base_mem && rc + sizeof(struct rng_ctx) <= b->base_mem + (1U << B_TOTAL_EXP), "the generator context lies inside the LP's rollbackable memory");
	current_lp = lp;
	/* the model allocates and writes some state */
	unsigned char *st = rs_malloc(8);
	VERIF_ASSERT(st != NULL && (st + 8 <= rc || rc + sizeof(struct rng_ctx) <= st), "model memory does not overlap the generator context");
	vin_bytes(st, 8);
	unsigned char s0 = st[vin_upto(7) & 7];
	unsigned wi = vin_upto(7);
	unsigned char sw = st[wi];
	(void)s0;
	uint_fast32_t size_ck = mm->full_ckpt_size;
	model_allocator_checkpoint_take(mm, 1);
	struct rng_ctx at_ck = *lp->rng_ctx;
	uint64_t first = 0;
	unsigned k = 1 + vin_upto(2);
	for(unsigned i = 0; i < 3; i++)
		if(i < k) {
			uint64_t v = RandomU64();
			if(i == 0)
				first = v;
		}
	/* undone events also change memory: write, allocate, free */
	vin_bytes(st, 8);
	unsigned char *extra = rs_malloc(8);
	if(vin_bool())
		rs_free(st);
	(void)extra;
	array_count_t r = model_allocator_checkpoint_restore(mm, 1 + vin_upto(3));
	VERIF_ASSERT(r == 1, "the rollback restores the (only) checkpoint");
	VERIF_ASSERT(lp->rng_ctx->state[0] == at_ck.state[0] && lp->rng_ctx->state[1] == at_ck.state[1] && lp->rng_ctx->state[2] == at_ck.state[2] && lp->rng_ctx->state[3] == at_ck.state[3],
	    "the generator state is the one at the checkpoint");
	VERIF_ASSERT(RandomU64() == first, "after the rollback the random stream replays the same values");
	VERIF_ASSERT(st[wi] == sw, "every byte of a block live at the checkpoint is restored");
	VERIF_ASSERT(mm->full_ckpt_size == size_ck, "the accounted size is the checkpoint's");
	/* allocations of undone events are gone: the same request is served again from the same place */
	unsigned char *again = rs_malloc(8);
	VERIF_ASSERT(again == extra, "a block allocated by an undone event is free again after the rollback");
	lp_fini();
	VERIF_WITNESS("rng end reachable");
}
