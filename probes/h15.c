#include <datatypes/msg_queue.c>
#include <pthread.h>
struct simulation_configuration global_config;
__thread rid_t rid; nid_t n_nodes=1, nid; uint64_t lid_node_first; lp_id_t n_lps_node;
void vlogger(enum log_level l, char *f, unsigned ln, const char *fmt, ...){(void)l;(void)f;(void)ln;(void)fmt;}
void msg_allocator_free(struct lp_msg *m){(void)m;}
double nondet_d(void);
#ifndef NP
#define NP 2
#endif
static struct lp_msg M[NP];
static _Bool inserted_done[NP];
static void *prod(void *arg){
  unsigned k = (unsigned)(unsigned long)arg; rid = 1 + k;
  msg_queue_insert(&M[k]);
  inserted_done[k] = 1;
  return 0;
}
void harness(void){
  global_config.n_threads = 1+NP; global_config.lps = 1+NP; n_lps_node = 1+NP; lid_node_first=0;
  msg_queue_global_init();
  __CPROVER_assume(queues);
  for(unsigned r=0;r<1+NP;r++) queues[r].list = 0;
  for(int k=0;k<NP;k++){ M[k].dest=0; M[k].dest_t=nondet_d(); __CPROVER_assume(M[k].dest_t>=0.0 && M[k].dest_t < 1e9); M[k].pl_size=0; M[k].raw_flags=0; M[k].m_type=0; }
  rid = 0; heap_init(mqp);
  pthread_t t[NP];
  for(unsigned long k=0;k<NP;k++) pthread_create(&t[k],0,prod,(void*)k);
  /* consumer */
  _Bool before[NP]; for(int k=0;k<NP;k++) before[k]=inserted_done[k];
  simtime_t pk = msg_queue_time_peek();
  for(int k=0;k<NP;k++) if(before[k]) __CPROVER_assert(pk <= M[k].dest_t, "peek is a lower bound of messages inserted before it began");
  unsigned got[NP]={0};
  for(int i=0;i<NP+1;i++){
    struct lp_msg *m = msg_queue_extract();
    if(m){ unsigned k = m - M; __CPROVER_assert(k<NP,"extracted is a real message"); got[k]++; __CPROVER_assert(m->dest_t >= pk, "extract not below earlier peek"); }
  }
  for(unsigned long k=0;k<NP;k++) pthread_join(t[k],0);
  for(int i=0;i<NP;i++){ struct lp_msg *m = msg_queue_extract(); if(m){ got[m-M]++; } }
  for(int k=0;k<NP;k++) __CPROVER_assert(got[k]==1,"each message extracted exactly once");
  __CPROVER_assert(msg_queue_extract()==0,"queue empty at end");
#ifdef WITNESS
  __CPROVER_assert(0,"witness");
#endif
}
