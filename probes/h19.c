#include <lib/topology/topology.c>
unsigned nondet_u(void); double nondet_d(void); int nondet_i(void);
double Random(void){ double d=nondet_d(); __CPROVER_assume(d>=0.0 && d<1.0); return d; }
int RandomRange(int mn, int mx){ int r=nondet_i(); __CPROVER_assume(r>=mn && r<=mx); return r; }
#ifndef B
#define B 5
#endif
void harness(void){
  struct topology t; 
  unsigned g = GEOM;
  unsigned w = nondet_u(), h = nondet_u(); __CPROVER_assume(w>=1 && w<=B && h>=1 && h<=B);
  t.geometry=g; t.adjacency=0;
  if(g<=TOPOLOGY_TORUS){ t.width=w; t.height=h; t.regions=w*h; } else { t.width=0; t.height=0; t.regions=w; }
  lp_id_t from = nondet_u(); __CPROVER_assume(from < t.regions);
  unsigned valid=0;
  for(unsigned d=0; d<DIRECTION_RANDOM; d++){
    if(g==TOPOLOGY_STAR || g==TOPOLOGY_FCMESH) break;
    lp_id_t r = GetReceiver(from,&t,d);
    if(r!=INVALID_DIRECTION){ valid++; __CPROVER_assert(r<t.regions,"receiver inside topology"); __CPROVER_assert(IsNeighbor(from,r,&t),"IsNeighbor confirms"); }
  }
  lp_id_t cd = CountDirections(from,&t);
  if(g==TOPOLOGY_HEXAGON) __CPROVER_assert(cd==valid,"CountDirections hexagon");
  if(g==TOPOLOGY_SQUARE) __CPROVER_assert(cd==valid,"CountDirections square");
  if(g==TOPOLOGY_TORUS) __CPROVER_assert(cd==valid,"CountDirections torus");
  if(g==TOPOLOGY_RING||g==TOPOLOGY_BIDRING) __CPROVER_assert(cd==valid,"CountDirections rings");
  if(g==TOPOLOGY_FCMESH) __CPROVER_assert(cd==t.regions-1,"CountDirections mesh");
  if(g==TOPOLOGY_STAR) __CPROVER_assert(cd==(from==0?t.regions-1:1),"CountDirections star");
  if(g!=TOPOLOGY_HEXAGON && g!=TOPOLOGY_SQUARE && g!=TOPOLOGY_TORUS){
    lp_id_t r = GetReceiver(from,&t,DIRECTION_RANDOM);
    if(r!=INVALID_DIRECTION){ __CPROVER_assert(r<t.regions,"random receiver inside topology"); __CPROVER_assert(IsNeighbor(from,r,&t),"IsNeighbor confirms random"); }
  }
}
