#include <lp/msg.h>
#include <stdlib.h>
unsigned nondet_u(void); double nondet_d(void); unsigned char nondet_uc(void);
#ifndef PLMAX
#define PLMAX 8
#endif
static struct lp_msg *mk(void){
  unsigned sz = nondet_u(); __CPROVER_assume(sz <= PLMAX);
  struct lp_msg *m = malloc(sizeof(struct lp_msg) + (PLMAX>32?PLMAX-32:0));
  __CPROVER_assume(m);
  m->dest_t = nondet_d(); __CPROVER_assume(m->dest_t == m->dest_t);
  m->raw_flags = nondet_u(); m->m_type = nondet_u(); m->pl_size = sz; m->m_seq = nondet_u();
  for (unsigned i=0;i<PLMAX;i++) m->pl[i]=nondet_uc();
  return m;
}
void harness(void){
  struct lp_msg *a=mk(),*b=mk(),*c=mk();
  _Bool ab=msg_is_before(a,b), ba=msg_is_before(b,a), bc=msg_is_before(b,c), cb=msg_is_before(c,b), ac=msg_is_before(a,c), ca=msg_is_before(c,a);
  _Bool aa=msg_is_before(a,a);
  __CPROVER_assert(!aa,"irreflexive");
  __CPROVER_assert(!(ab&&ba),"asymmetric");
  __CPROVER_assert(!(ab&&bc)||ac,"transitive");
  __CPROVER_assert(!(!ab&&!ba&&!bc&&!cb)||(!ac&&!ca),"incomparability transitive");
#ifdef WITNESS
  __CPROVER_assert(0,"witness");
#endif
}
