#include <stdlib.h>
struct B { char x[64]; };
void harness(void){
  struct B *a = malloc(sizeof *a), *b = malloc(sizeof *b); __CPROVER_assume(a && b);
  void *p = &b->x[3];
  int r1 = p < (void*)a; int r2 = p > (void*)(a+1);
  struct B *lo = a < b ? a : b, *hi = a < b ? b : a;
  __CPROVER_assert(lo < hi, "total order on distinct objects");
  __CPROVER_assert(!(r1 && r2), "consistent");
  __CPROVER_assert(r1 || r2, "a pointer into b is outside a");
}
