#include <datatypes/msg_queue.c>
#include <mm/msg_allocator.c>
#include <stdlib.h>
struct simulation_configuration global_config;
__thread rid_t rid; nid_t n_nodes=1, nid; uint64_t lid_node_first; lp_id_t n_lps_node;
void vlogger(enum log_level l, char *f, unsigned ln, const char *fmt, ...){(void)l;(void)f;(void)ln;(void)fmt;}
unsigned nondet_u(void);
void *realloc(void *p, size_t n){ (void)p; (void)n; __CPROVER_assert(0, "array growth not needed within the bound"); __CPROVER_assume(0); return 0; }
void harness(void){
  global_config.n_threads=1; global_config.lps=1; n_lps_node=1;
  queues = malloc(sizeof *queues); __CPROVER_assume(queues); queues[0].list=0;
  rid=0; msg_allocator_init(); heap_init(mqp);
  unsigned sz = nondet_u(); __CPROVER_assume(sz<=40);
  unsigned char buf[40]={0};
  struct lp_msg *m1 = msg_allocator_pack(0, 1.0, 1, buf, sz);
  struct lp_msg *m2 = msg_allocator_pack(0, 2.0, 1, buf, 0);
  m1->raw_flags=0; m2->raw_flags=0;
  msg_queue_insert(m2); msg_queue_insert(m1);   /* left in the buffer at shutdown */
  msg_queue_fini();
  msg_allocator_fini();
}
