#include <lp/lp.h>
/* micro-probe: only the node-level routing arithmetic */
struct simulation_configuration global_config; nid_t n_nodes, nid; lp_id_t n_lps_node; uint64_t lid_node_first;
unsigned long nondet_ul(void); unsigned nondet_u(void);
void harness(void){
  unsigned long L=nondet_ul(), a=nondet_ul(), b=nondet_ul(); unsigned N=nondet_u();
  __CPROVER_assume(L>=1 && L<=MAXL && N>=1 && N<=MAXNN && N<=L && a<b && b<L);
  global_config.lps=L; n_nodes=N;
  __CPROVER_assert(lid_to_nid(a) <= lid_to_nid(b), "routing monotone");
  __CPROVER_assert(lid_to_nid(b) < (nid_t)N, "routing in range");
  __CPROVER_assert(lid_to_nid(b) - lid_to_nid(b-1) <= 1, "onto: no node skipped");
}
