/* lemma L3: do_rollback on a symbolic history, real allocator with two checkpoints */
#include <lp/process.c>
#include <datatypes/msg_queue.c>
#include <mm/msg_allocator.c>
#include <mm/buddy/buddy.c>
#include <mm/buddy/ckpt.c>
#include <mm/buddy/multi.c>
#include <stdlib.h>
struct simulation_configuration global_config;
__thread rid_t rid; nid_t n_nodes=1, nid; uint64_t lid_node_first; lp_id_t n_lps_node; __thread struct lp_ctx *current_lp; struct lp_ctx *lps;
void vlogger(enum log_level l, char *f, unsigned ln, const char *fmt, ...){(void)l;(void)f;(void)ln;(void)fmt;}
void stats_take(enum stats_thread_type s, uint_fast64_t c){(void)s;(void)c;}
void mpi_remote_anti_msg_send(struct lp_msg *m, nid_t d){(void)m;(void)d;}
void mpi_remote_msg_send(struct lp_msg *m, nid_t d){(void)m;(void)d;}
void ScheduleNewEvent_serial(lp_id_t r, simtime_t t, unsigned ty, const void *p, unsigned s){(void)r;(void)t;(void)ty;(void)p;(void)s;}
void gvt_on_msg_extraction(simtime_t t){(void)t;}
void fossil_lp_collect(struct lp_ctx *lp){(void)lp;} __thread unsigned fossil_epoch_current;
void termination_on_lp_rollback(struct lp_ctx *lp, simtime_t t){(void)lp;(void)t;}
void termination_on_msg_process(struct lp_ctx *lp, simtime_t t){(void)lp;(void)t;}
void auto_ckpt_recompute(struct auto_ckpt *a, uint_fast32_t s){(void)a;(void)s;}
int gettimeofday(struct timeval *tv, void *tz){(void)tz; tv->tv_sec=0; tv->tv_usec=0; return 0;}
void *realloc(void *p, size_t n){ (void)p; (void)n; __CPROVER_assert(0, "array growth not needed within the bound"); __CPROVER_assume(0); return 0; }
unsigned nondet_u(void); double nondet_d(void);
/* byte-loop models: symbolic-length copies stay cheap (CBMC's array_replace model does not) */
void *memcpy(void *d, const void *s, size_t n){ unsigned char *dd=d; const unsigned char *ss=s; for(size_t i=0;i<n;i++) dd[i]=ss[i]; return d; }
void *memmove(void *d, const void *s, size_t n){ unsigned char *dd=d; const unsigned char *ss=s; if(dd<ss) for(size_t i=0;i<n;i++) dd[i]=ss[i]; else for(size_t i=n;i>0;i--) dd[i-1]=ss[i-1]; return d; }
#ifndef H
#define H 6
#endif
static struct lp_msg *P[H];
static unsigned nlog; static struct lp_msg *logm[H]; static unsigned sends_in_silent;
static void model(lp_id_t me, simtime_t now, unsigned type, const void *c, unsigned size, void *st){
  (void)me;(void)c;(void)size; unsigned *s = st;
  /* record which message is being re-executed: identify by (now,type) pointer match done by harness through current position */
  if(nlog<H){ for(unsigned k=0;k<H;k++) if(P[k]->dest_t==now && P[k]->m_type==type){ logm[nlog]=P[k]; break; } nlog++; }
  *s = *s * 31 + type;
  ScheduleNewEvent(0, now+1.0, 7, NULL, 0);   /* must be suppressed while silent */
}
static bool canend(lp_id_t me, const void *st){(void)me;(void)st;return 0;}
void harness(void){
  static struct lp_ctx lp; lps=&lp; current_lp=&lp; n_lps_node=1; global_config.lps=1; global_config.n_threads=1; global_config.dispatcher=model; global_config.committed=canend;
  queues = malloc(sizeof *queues); __CPROVER_assume(queues); queues[0].list=0; rid=0; msg_allocator_init(); heap_init(mqp);
  model_allocator_lp_init(&lp.mm_state);
  unsigned *st = rs_malloc(sizeof *st); *st = 1; lp.state_pointer = st;
  array_init(lp.p.p_msgs); lp.p.early_antis=NULL;
  unsigned n = nondet_u(); __CPROVER_assume(n>=2 && n<=H);
  unsigned tag[H]; 
  for(unsigned k=0;k<H;k++){ P[k]=malloc(sizeof(struct lp_msg)); __CPROVER_assume(P[k]); P[k]->dest=0; P[k]->dest_t=(double)k; P[k]->m_type=100+k; P[k]->pl_size=0; P[k]->raw_flags = MSG_FLAG_PROCESSED; }
  for(unsigned i=0;i<H;i++){ tag[i]= (i==0||i==n-1) ? 0 : (nondet_u()&1); if(tag[i]) P[i]->raw_flags=0; }
  /* build the history; take checkpoints after processed entries at solver-chosen positions */
  unsigned c2 = nondet_u(); 
  for(unsigned i=0;i<H;i++){ if(i>=n) break;
    array_push(lp.p.p_msgs, tag[i]? mark_msg_sent(P[i]) : P[i]);
    if(!tag[i]){ *st = *st * 31 + P[i]->m_type; if(i==0 || i==c2) model_allocator_checkpoint_take(&lp.mm_state, array_count(lp.p.p_msgs)); }
  }
  unsigned past_i = nondet_u(); __CPROVER_assume(past_i>=1 && past_i<n && tag[past_i-1]==0);
  /* expected state: fold over processed entries < past_i */
  unsigned exp=1; for(unsigned i=0;i<H;i++) if(i<past_i && !tag[i]) exp = exp*31 + P[i]->m_type;
  unsigned expected_ref = (c2<n && !tag[c2 < H ? c2 : 0] && c2+1<=past_i) ? c2+1 : 1;
  nlog=0;
  do_rollback(&lp, past_i);
  __CPROVER_assert(array_count(lp.p.p_msgs)==past_i, "history cut at the target");
  __CPROVER_assert(*st == exp, "state equals the fold over the events that remain valid");
  unsigned cnt=0; for(unsigned i=0;i<H;i++) if(i>=expected_ref && i<past_i && !tag[i]){ __CPROVER_assert(cnt<nlog && logm[cnt]==P[i], "coast-forward re-executes exactly the kept events after the checkpoint, in order"); cnt++; }
  __CPROVER_assert(cnt==nlog, "nothing else re-executed");
  __CPROVER_assert(queues[0].list==NULL || 1, "placeholder");
#ifdef WITNESS
  __CPROVER_assert(0,"witness");
#endif
}
