#include <stdio.h>
#include <lp/lp.h>
extern double Random(void);
struct simulation_configuration global_config;
int main(void){ static struct lp_ctx lp; static struct rng_ctx r; r.state[0]=0; r.state[1]=0x7d6c16c16c16c16cULL; r.state[2]=0; r.state[3]=0; lp.rng_ctx=&r; current_lp=&lp; double d=Random(); printf("Random()=%.20g\n", d); return 0; }
