/* C05(a2): single-arena checkpoint round trip on a symbolic tree */
#include <mm/buddy/buddy.c>
#include <mm/buddy/ckpt.c>
#include <stdlib.h>
struct simulation_configuration global_config;
void vlogger(enum log_level l, char *f, unsigned ln, const char *fmt, ...){(void)l;(void)f;(void)ln;(void)fmt;}
unsigned nondet_u(void); unsigned char nondet_uc(void);
void *memcpy(void *d, const void *s, size_t n){ unsigned char *dd=d; const unsigned char *ss=s; for(size_t i=0;i<n;i++) dd[i]=ss[i]; return d; }
#define NNODES (1U << (B_TOTAL_EXP - B_BLOCK_EXP + 1))
#define NINT ((NNODES/2) - 1)
#define ASZ (1U<<B_TOTAL_EXP)
static unsigned char expo[NNODES];
static void mk_expo(void){ unsigned char e=B_TOTAL_EXP; for(unsigned i=0;i<NNODES-1;i++){ expo[i]=e; e -= is_power_of_2(i+2);} }
static _Bool inv(const unsigned char *lg){
  _Bool ok = 1;
  for(unsigned i=0;i<NINT;i++){
    unsigned char e=expo[i], v=lg[i], l=lg[2*i+1], r=lg[2*i+2];
    _Bool full = (l==e-1 && r==e-1);
    if(v==e) ok = ok && full;
    else if(v==0) ok = ok && (full || (l==0 && r==0));
    else ok = ok && (v < e && v >= B_BLOCK_EXP && v == (l>r?l:r) && !full);
  }
  for(unsigned i=NINT;i<NNODES-1;i++){ unsigned char v=lg[i]; ok = ok && (v==0 || v==B_BLOCK_EXP); }
  return ok;
}
static _Bool live_at(const unsigned char *lg, unsigned off){ unsigned i=0; for(unsigned d=0; d<=B_TOTAL_EXP-B_BLOCK_EXP; d++){ if(lg[i]==0) return 1; if(i>=NINT) return 0; unsigned half = 1U<<(expo[i]-1); unsigned base = ((i+1)<<expo[i]) - ASZ; i = 2*i+1 + ((off-base) >= half); } return 0; }
static unsigned live_bytes(const unsigned char *lg){ unsigned t=0; for(unsigned b=0;b<ASZ;b+=(1U<<B_BLOCK_EXP)) if(live_at(lg,b)) t+=(1U<<B_BLOCK_EXP); return t; }
void harness(void){
  mk_expo();
  static struct buddy_state s;
  for(unsigned i=0;i<NNODES;i++) s.longest[i]=nondet_uc();
  __CPROVER_assume(inv(s.longest));
  for(unsigned i=0;i<ASZ;i++) s.base_mem[i]=nondet_uc();
  unsigned char tree0[NNODES]; for(unsigned i=0;i<NNODES;i++) tree0[i]=s.longest[i];
  unsigned w = nondet_u(); __CPROVER_assume(w<ASZ); unsigned char wv = s.base_mem[w]; _Bool wlive = live_at(tree0,w);
  unsigned need = offsetof(struct buddy_checkpoint, base_mem) + live_bytes(tree0);
  static unsigned char bufstore[sizeof(struct buddy_checkpoint) + ASZ + 16] __attribute__((aligned(16))); unsigned char *buf = bufstore;
  struct buddy_checkpoint *end = checkpoint_full_take(&s, (struct buddy_checkpoint *)buf);
  __CPROVER_assert((unsigned char *)end == buf + need, "checkpoint occupies exactly header + live bytes");
  /* havoc */
  for(unsigned i=0;i<NNODES;i++) s.longest[i]=nondet_uc();
  __CPROVER_assume(inv(s.longest));
  for(unsigned i=0;i<ASZ;i++) s.base_mem[i]=nondet_uc();
  const struct buddy_checkpoint *rend = checkpoint_full_restore(&s, (const struct buddy_checkpoint *)buf);
  __CPROVER_assert((const unsigned char *)rend == buf + need, "restore consumes exactly the same bytes");
  for(unsigned i=0;i<NNODES-1;i++) __CPROVER_assert(s.longest[i]==tree0[i], "allocation tree restored");
  if(wlive) __CPROVER_assert(s.base_mem[w]==wv, "every byte of every live block restored");
#ifdef WITNESS
  __CPROVER_assert(0,"witness");
#endif
}
