/* C19 purity with RandomRange as a contract stub: a deterministic function of the caller's generator state (C18 discharges the range contract) */
#include <lib/topology/topology.c>
#include <lp/lp.h>
struct simulation_configuration global_config;
__thread struct lp_ctx *current_lp; __thread rid_t rid; nid_t n_nodes=1, nid; uint64_t lid_node_first; lp_id_t n_lps_node;
unsigned long nondet_ul(void); unsigned nondet_u(void);
unsigned __CPROVER_uninterpreted_draw(unsigned long s);
int RandomRange(int mn, int mx){ struct rng_ctx *c=current_lp->rng_ctx; unsigned d=__CPROVER_uninterpreted_draw(c->state[0]); c->state[0]++; return mn + (int)(d % (unsigned)(mx-mn+1)); }
double Random(void){ struct rng_ctx *c=current_lp->rng_ctx; unsigned d=__CPROVER_uninterpreted_draw(c->state[0]); c->state[0]++; return (double)(d%1024)/1024.0; }
void harness(void){
  struct topology t; t.geometry=GEOM; t.adjacency=0; t.width=3; t.height=3; t.regions=9;
  struct lp_ctx lpA, lpB; struct rng_ctx rA, rB, r0;
  r0.state[0]=nondet_ul(); rB.state[0]=nondet_ul();
  lpA.rng_ctx=&rA; lpB.rng_ctx=&rB;
  lp_id_t from = nondet_u()%9;
  rA=r0; current_lp=&lpA; lp_id_t first = GetReceiver(from,&t,DIRECTION_RANDOM);
  if(nondet_u()&1){ current_lp=&lpB; (void)GetReceiver(nondet_u()%9,&t,DIRECTION_RANDOM); }
  rA=r0; current_lp=&lpA; lp_id_t second = GetReceiver(from,&t,DIRECTION_RANDOM);
  __CPROVER_assert(first==second, "random receiver is a function of the caller's generator state only");
}
