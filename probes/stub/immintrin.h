#pragma once
static inline void _mm_pause(void) {}
