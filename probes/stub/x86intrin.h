#pragma once
/* environment stub: time-stamp counter is an arbitrary value */
unsigned long long nondet_verif_tsc(void);
static inline unsigned long long __rdtsc(void){ return nondet_verif_tsc(); }
