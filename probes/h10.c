/* C10 probe: real serial.c vs a textbook executor, uninterpreted model */
#include <serial/serial.c>
#include <mm/msg_allocator.c>
#include <mm/buddy/buddy.c>
#include <mm/buddy/ckpt.c>
#include <mm/buddy/multi.c>
#include <lib/random/random.c>
#include <lib/random/xxtea.c>
#include <lp/process.c>
struct simulation_configuration global_config;
__thread rid_t rid; nid_t n_nodes=1, nid; uint64_t lid_node_first; lp_id_t n_lps_node; __thread struct lp_ctx *current_lp; struct lp_ctx *lps;
#ifndef NDEBUG
bool lp_initialized;
#endif
void vlogger(enum log_level l, char *f, unsigned ln, const char *fmt, ...){(void)l;(void)f;(void)ln;(void)fmt;}
void stats_take(enum stats_thread_type s, uint_fast64_t c){(void)s;(void)c;}
void stats_global_init(void){} void stats_init(void){} void stats_global_fini(void){} void stats_dump(void){} void stats_on_gvt(simtime_t g){(void)g;} void stats_global_time_take(enum stats_global_type t){(void)t;}
unsigned long nondet_ul(void); unsigned nondet_u(void);
int gettimeofday(struct timeval *tv, void *tz){(void)tz; tv->tv_sec=nondet_ul()%4; tv->tv_usec=0; return 0;}
void *realloc(void *p, size_t n){ (void)p; (void)n; __CPROVER_assert(0, "array growth not needed within the bound"); __CPROVER_assume(0); return 0; }
/* parallel-only symbols referenced by process.c but unreachable in serial mode */
void msg_queue_insert(struct lp_msg *m){(void)m; __CPROVER_assert(0,"unreachable in serial");}
struct lp_msg *msg_queue_extract(void){return 0;}
void mpi_remote_anti_msg_send(struct lp_msg *m, nid_t d){(void)m;(void)d;} void mpi_remote_msg_send(struct lp_msg *m, nid_t d){(void)m;(void)d;}
void gvt_on_msg_extraction(simtime_t t){(void)t;} void fossil_lp_collect(struct lp_ctx *lp){(void)lp;} __thread unsigned fossil_epoch_current;
void termination_on_lp_rollback(struct lp_ctx *lp, simtime_t t){(void)lp;(void)t;} void termination_on_msg_process(struct lp_ctx *lp, simtime_t t){(void)lp;(void)t;}
void auto_ckpt_recompute(struct auto_ckpt *a, uint_fast32_t s){(void)a;(void)s;}
#ifndef NLP
#define NLP 2
#endif
#ifndef CMAX
#define CMAX 2
#endif
#define MAXEV (NLP*(CMAX+1)+2)
unsigned __CPROVER_uninterpreted_f(unsigned s, unsigned ty, unsigned me);
unsigned __CPROVER_uninterpreted_g(unsigned s, unsigned ty, unsigned me);
struct st { unsigned s; unsigned cnt; };
struct ev { unsigned lp; double t; unsigned ty; };
static struct ev log_rt[MAXEV+2*NLP]; static unsigned nlog_rt;
static void step(struct st *st, unsigned me, double now, unsigned type, void (*send)(unsigned, double, unsigned)){
  unsigned g = __CPROVER_uninterpreted_g(st->s, type, me);
  st->s = __CPROVER_uninterpreted_f(st->s, type, me);
  st->cnt++;
  if(st->cnt <= CMAX){ unsigned d = g % NLP; double dl = (double)((g>>4)%2); unsigned ty = 1 + ((g>>8)&1); send(d, now+dl, ty); }
}
static void send_rt(unsigned d, double t, unsigned ty){ ScheduleNewEvent(d, t, ty, NULL, 0); }
static void model(lp_id_t me, simtime_t now, unsigned type, const void *content, unsigned size, void *v){
  (void)content;(void)size;
  if(nlog_rt < MAXEV+2*NLP){ log_rt[nlog_rt].lp=me; log_rt[nlog_rt].t=now; log_rt[nlog_rt].ty=type; } nlog_rt++;
  if(type==LP_INIT){ struct st *st = rs_malloc(sizeof *st); st->s = me; st->cnt=0; SetState(st); ScheduleNewEvent(me, 0.0, 1, NULL, 0); return; }
  if(type==LP_FINI) return;
  step(v, me, now, type, send_rt);
}
static bool canend(lp_id_t me, const void *v){ (void)me; const struct st *st=v; return st->cnt > CMAX; }
/* reference executor */
static struct ev pend[MAXEV]; static unsigned npend; static struct st rst[NLP];
static void send_ref(unsigned d, double t, unsigned ty){ if(npend<MAXEV){ pend[npend].lp=d; pend[npend].t=t; pend[npend].ty=ty; } npend++; }
void harness(void){
  struct simulation_configuration c = {0}; c.lps=NLP; c.serial=1; c.dispatcher=model; c.committed=canend; c.termination_time=SIMTIME_MAX; c.gvt_period=1000000; c.log_level=LOG_SILENT; c.n_threads=1;
  global_config = c;
  serial_simulation();
  /* reference */
  unsigned k=0; 
  for(unsigned i=0;i<NLP;i++){ __CPROVER_assert(k<nlog_rt && log_rt[k].lp==i && log_rt[k].ty==LP_INIT, "LP_INIT first, per LP"); k++; rst[i].s=i; rst[i].cnt=0; send_ref(i,0.0,1); }
  unsigned done=0; _Bool ended[NLP]={0};
  for(unsigned it=0; it<MAXEV; it++){
    if(npend==0 || npend>MAXEV) break;
    /* minimum under the documented order: time, then type descending (payload empty here) */
    unsigned m=0; for(unsigned j=1;j<MAXEV;j++) if(j<npend && (pend[j].t<pend[m].t || (pend[j].t==pend[m].t && pend[j].ty>pend[m].ty))) m=j;
    struct ev e=pend[m]; pend[m]=pend[npend-1]; npend--;
    __CPROVER_assert(k<nlog_rt && log_rt[k].t==e.t && log_rt[k].ty==e.ty && (log_rt[k].lp==e.lp), "dispatch sequence equals the reference (up to content-identical ties)"); k++;
    step(&rst[e.lp], e.lp, e.t, e.ty, send_ref);
    if(!ended[e.lp] && rst[e.lp].cnt > CMAX){ ended[e.lp]=1; done++; if(done==NLP) break; }
  }
  for(unsigned i=0;i<NLP;i++){ __CPROVER_assert(k<nlog_rt && log_rt[k].lp==i && log_rt[k].ty==LP_FINI, "LP_FINI last, per LP"); k++; }
  __CPROVER_assert(k==nlog_rt, "nothing else dispatched");
#ifdef WITNESS
  __CPROVER_assert(0,"witness");
#endif
}
