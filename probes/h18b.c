#include <lib/random/random.c>
#include <lib/random/xxtea.c>
struct simulation_configuration global_config;
__thread struct lp_ctx *current_lp; __thread rid_t rid; nid_t n_nodes=1, nid; uint64_t lid_node_first; lp_id_t n_lps_node;
unsigned long nondet_ul(void); int nondet_i(void); unsigned nondet_u(void);
void h_range(void){
  struct lp_ctx lp; struct rng_ctx r; for(int i=0;i<4;i++) r.state[i]=nondet_ul(); lp.rng_ctx=&r; current_lp=&lp;
  { uint64_t s1=r.state[1]; uint64_t x=s1*5; x=(x<<7)|(x>>57); __CPROVER_assume(x*9 != 1); }
  int mn=nondet_i(), mx=nondet_i(); __CPROVER_assume(mn>=0 && mx>=mn && mx-mn < WIDTH);
  int v = RandomRange(mn,mx);
  __CPROVER_assert(v>=mn && v<=mx, "RandomRange in [min,max]");
}
void h_seed(void){
  uint64_t seed=nondet_ul(), id=nondet_ul(); struct rng_ctx a,b;
  global_config.prng_seed=seed; nid=nondet_i(); rid=nondet_u(); n_nodes=nondet_i(); global_config.n_threads=nondet_u(); lid_node_first=nondet_ul();
  random_lib_lp_init(id,&a);
  nid=nondet_i(); rid=nondet_u(); n_nodes=nondet_i(); global_config.n_threads=nondet_u(); lid_node_first=nondet_ul();
  random_lib_lp_init(id,&b);
  __CPROVER_assert(a.state[0]==b.state[0] && a.state[1]==b.state[1] && a.state[2]==b.state[2] && a.state[3]==b.state[3], "seeding depends on (seed, lp id) only");
}
