/* whole-runtime sequentialized probe: unity TU of the real parallel runtime, no MPI, oracle GVT */
#include <lp/process.c>
#include <lp/lp.c>
#include <core/core.c>
#include <datatypes/msg_queue.c>
#include <mm/msg_allocator.c>
#include <mm/buddy/buddy.c>
#include <mm/buddy/ckpt.c>
#include <mm/buddy/multi.c>
#include <mm/auto_ckpt.c>
#include <gvt/fossil.c>
#include <gvt/termination.c>
#include <distributed/no_mpi.c>
#include <distributed/control_msg.c>
struct simulation_configuration global_config;
/* environment stubs */
void vlogger(enum log_level l, char *f, unsigned ln, const char *fmt, ...){(void)l;(void)f;(void)ln;(void)fmt;}
void stats_take(enum stats_thread_type s, uint_fast64_t c){(void)s;(void)c;}
uint64_t stats_retrieve(enum stats_thread_type s){(void)s;return 0;}
void gvt_on_msg_extraction(simtime_t t){(void)t;}
void gvt_start_processing(void){} void gvt_on_done_ctrl_msg(void){}
void ScheduleNewEvent_serial(lp_id_t r, simtime_t t, unsigned ty, const void *p, unsigned s){(void)r;(void)t;(void)ty;(void)p;(void)s;}
void random_lib_lp_init(lp_id_t id, struct rng_ctx *r){ r->state[0]=id; r->state[1]=r->state[2]=r->state[3]=0; }
bool sync_thread_barrier(void){return 1;}
int gettimeofday(struct timeval *tv, void *tz){(void)tz; tv->tv_sec=0; tv->tv_usec=0; return 0;}


#ifndef NLP
#define NLP 2
#endif
#ifndef K
#define K 4
#endif
#ifndef CMAX
#define CMAX 2
#endif
unsigned nondet_u(void);
unsigned __CPROVER_uninterpreted_f(unsigned s, unsigned ty, unsigned me);
unsigned __CPROVER_uninterpreted_g(unsigned s, unsigned ty, unsigned me);
struct st { unsigned s; unsigned cnt; };
static unsigned fin_s[NLP], fin_cnt[NLP];
static void model(lp_id_t me, simtime_t now, unsigned type, const void *content, unsigned size, void *v){
  struct st *st = v; (void)content; (void)size;
  if(type==LP_INIT){ st = rs_malloc(sizeof *st); st->s = me; st->cnt=0; SetState(st); ScheduleNewEvent(me, 1.0, 1, NULL, 0); return; }
  if(type==LP_FINI){ fin_s[me]=st->s; fin_cnt[me]=st->cnt; return; }
  unsigned g = __CPROVER_uninterpreted_g(st->s, type, (unsigned)me);
  st->s = __CPROVER_uninterpreted_f(st->s, type, (unsigned)me);
  st->cnt++;
  if(st->cnt < CMAX){ lp_id_t d = g % NLP; double dl = (double)((g>>4)%3); unsigned ty = 1 + ((g>>8)&1); ScheduleNewEvent(d, now+dl, ty, NULL, 0); }
}
static bool canend(lp_id_t me, const void *v){ (void)me; const struct st *st=v; return st->cnt >= CMAX; }
void harness(void){
  global_config.lps=NLP; global_config.n_threads=1; global_config.dispatcher=model; global_config.committed=canend; global_config.ckpt_interval=2; global_config.termination_time=SIMTIME_MAX;
  n_nodes=1; nid=0;
  lp_global_init(); msg_queue_global_init(); __CPROVER_assume(queues); termination_global_init();
  rid=0; auto_ckpt_init(); msg_allocator_init(); msg_queue_init(); lp_init();
  for(int i=0;i<K;i++) process_msg();
  __CPROVER_assert(lps[0].p.p_msgs.count>=1,"sanity");
#ifdef WITNESS
  __CPROVER_assert(0,"witness");
#endif
}
