/* C06 probe: receiver thread runs real process_msg(); sender's real send_anti_messages() is injected at any atomic point */
#include <lp/process.c>
#include <datatypes/msg_queue.c>
#include <mm/msg_allocator.c>
#include <stdlib.h>
struct simulation_configuration global_config;
__thread rid_t rid; nid_t n_nodes=1, nid; uint64_t lid_node_first; lp_id_t n_lps_node; __thread struct lp_ctx *current_lp; struct lp_ctx *lps;
void vlogger(enum log_level l, char *f, unsigned ln, const char *fmt, ...){(void)l;(void)f;(void)ln;(void)fmt;}
void stats_take(enum stats_thread_type s, uint_fast64_t c){(void)s;(void)c;}
void mpi_remote_anti_msg_send(struct lp_msg *m, nid_t d){(void)m;(void)d;} void mpi_remote_msg_send(struct lp_msg *m, nid_t d){(void)m;(void)d;}
void ScheduleNewEvent_serial(lp_id_t r, simtime_t t, unsigned ty, const void *p, unsigned s){(void)r;(void)t;(void)ty;(void)p;(void)s;}
void gvt_on_msg_extraction(simtime_t t){(void)t;}
void fossil_lp_collect(struct lp_ctx *lp){(void)lp;} __thread unsigned fossil_epoch_current;
void termination_on_lp_rollback(struct lp_ctx *lp, simtime_t t){(void)lp;(void)t;} void termination_on_msg_process(struct lp_ctx *lp, simtime_t t){(void)lp;(void)t;}
void auto_ckpt_recompute(struct auto_ckpt *a, uint_fast32_t s){(void)a;(void)s;}
int gettimeofday(struct timeval *tv, void *tz){(void)tz; tv->tv_sec=0; tv->tv_usec=0; return 0;}
void *realloc(void *p, size_t n){ (void)p; (void)n; __CPROVER_assert(0, "array growth not needed within the bound"); __CPROVER_assume(0); return 0; }
/* allocator contract stubs (C05 discharges them) */
static unsigned n_take, n_restore;
void model_allocator_checkpoint_take(struct mm_state *s, array_count_t r){(void)s;(void)r;n_take++;}
array_count_t model_allocator_checkpoint_restore(struct mm_state *s, array_count_t r){(void)s; n_restore++; return r; }
unsigned nondet_u(void); _Bool nondet_b(void);
static unsigned disp_m;   /* net forward executions of m: +1 forward */
static struct lp_msg *m, *evA, *initA, *initB;
static void model(lp_id_t me, simtime_t now, unsigned type, const void *c, unsigned size, void *st){ (void)me;(void)now;(void)c;(void)size;(void)st; if(type==42) disp_m++; }
static bool canend(lp_id_t me, const void *st){(void)me;(void)st;return 0;}
static struct lp_ctx L[2];
static _Bool cancelled; static unsigned depth;
static void sender_cancels(void){ struct lp_ctx *cur=current_lp; send_anti_messages(&L[0].p, 1); current_lp=cur; cancelled=1; }
void verif_yield(void){ if(depth||cancelled) return; depth++; if(nondet_b()) sender_cancels(); depth--; }
static struct lp_msg *mk(lp_id_t d, double t, unsigned ty, unsigned fl){ struct lp_msg *x=malloc(sizeof *x); __CPROVER_assume(x); x->dest=d; x->dest_t=t; x->m_type=ty; x->pl_size=0; x->raw_flags=fl; x->next=0; return x; }
static unsigned in_free_list(struct lp_msg *x){ unsigned c=0; for(array_count_t i=0;i<array_count(free_list);i++) if(array_get_at(free_list,i)==x) c++; return c; }
void harness(void){
  lps=L; n_lps_node=2; global_config.lps=2; global_config.n_threads=2; global_config.dispatcher=model; global_config.committed=canend; global_config.ckpt_interval=1000;
  queues = malloc(2*sizeof *queues); __CPROVER_assume(queues); queues[0].list=0; queues[1].list=0;
  rid=1; msg_allocator_init(); heap_init(mqp);
  for(int i=0;i<2;i++){ array_init(L[i].p.p_msgs); L[i].p.early_antis=NULL; L[i].p.bound=0.0; L[i].auto_ckpt.ckpt_interval=1000; L[i].fossil_epoch=0; }
  initA=mk(0,0.0,LP_INIT,MSG_FLAG_PROCESSED); initB=mk(1,0.0,LP_INIT,MSG_FLAG_PROCESSED); evA=mk(0,1.0,7,MSG_FLAG_PROCESSED); m=mk(1,2.0,42,0);
  array_push(L[0].p.p_msgs, initA); array_push(L[0].p.p_msgs, mark_msg_sent(m)); array_push(L[0].p.p_msgs, evA);
  array_push(L[1].p.p_msgs, initB);
  /* L5 straggler case: B has processed e1 (and e2 sent by e1 to A); m arrives with a timestamp before / tied / after e1 */
  struct lp_msg *e1 = mk(1, 3.0, 50, MSG_FLAG_PROCESSED), *s1 = mk(0, 4.0, 51, 0);
  _Bool s1_processed = nondet_b(); if(s1_processed) s1->raw_flags = MSG_FLAG_PROCESSED;
  array_push(L[1].p.p_msgs, mark_msg_sent(s1)); array_push(L[1].p.p_msgs, e1); L[1].p.bound = 3.0;
  unsigned tsel = nondet_u()%3; m->dest_t = tsel==0?2.0:(tsel==1?3.0:5.0); m->m_type = nondet_b()? 42 : 60; m->raw_flags = 0;
  queues[1].list = m; depth = 1;
  _Bool strag = msg_is_before(m, e1);
  process_msg();
  if(strag){
    __CPROVER_assert(n_restore==1, "straggler: exactly one rollback");
    __CPROVER_assert(array_count(L[1].p.p_msgs)==2 && array_get_at(L[1].p.p_msgs,0)==initB && array_get_at(L[1].p.p_msgs,1)==m, "history = kept prefix + straggler");
    __CPROVER_assert(e1->raw_flags==0 && heap_count(mqp)==0 && queues[1].list==e1 && e1->next==NULL, "undone event re-queued exactly once, PROCESSED cleared");
    __CPROVER_assert((s1->raw_flags & MSG_FLAG_ANTI) && ((queues[0].list==s1) == s1_processed), "message sent by the undone event cancelled; re-queued iff already processed");
  } else {
    __CPROVER_assert(n_restore==0 && array_count(L[1].p.p_msgs)==4 && array_get_at(L[1].p.p_msgs,3)==m, "in-order or tied message appended, no rollback");
  }
#ifdef WITNESS
  __CPROVER_assert(0,"witness");
#endif
}
