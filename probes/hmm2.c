#include <mm/buddy/buddy.c>
#include <mm/buddy/ckpt.c>
#include <mm/buddy/multi.c>
struct simulation_configuration global_config; __thread struct lp_ctx *current_lp;
void vlogger(enum log_level l, char *f, unsigned ln, const char *fmt, ...){(void)l;(void)f;(void)ln;(void)fmt;}
size_t nondet_sz(void); unsigned char nondet_uc(void);
void harness(void){
  static struct lp_ctx lp; current_lp=&lp; model_allocator_lp_init(&lp.mm_state);
#ifdef CONC
  size_t a=40, b=100;
#else
  size_t a=nondet_sz(), b=nondet_sz();
#endif
  unsigned char *p = rs_malloc(a), *q = rs_malloc(b);
  if(p&&q){ __CPROVER_assert(p+ (a<1?1:a) <= q || q + b <= p, "disjoint"); }
  if(p){ p[0]=nondet_uc(); }
  unsigned char v = p? p[0]:0;
#ifndef NOCKPT
  model_allocator_checkpoint_take(&lp.mm_state, 1);
#endif
  if(p) p[0]=v+1;
  rs_free(q);
#ifdef RESTORE
  array_count_t ri = model_allocator_checkpoint_restore(&lp.mm_state, 5);
  __CPROVER_assert(ri==1,"ref");
  if(p) __CPROVER_assert(p[0]==v,"restored");
#endif
  rs_free(p);
}
