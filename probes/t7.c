#include <pthread.h>
struct node { struct node *next; int v; };
static struct node *list; static int *ip;
static struct node N[2]; static struct node N0; static int IA[2]; static int I0;
#ifdef A
static void *prod(void *a){ list = &N0; return 0; }
#elif defined(B)
static void *prod(void *a){ ip = &IA[0]; return 0; }
#elif defined(C)
static void *prod(void *a){ ip = &I0; return 0; }
#elif defined(D)
static void *prod(void *a){ ip = &N0.v; return 0; }
#endif
void harness(void){
  pthread_t t[2];
  for(unsigned long k=0;k<1;k++) pthread_create(&t[k],0,prod,(void*)k);
  for(unsigned long k=0;k<1;k++) pthread_join(t[k],0);
  __CPROVER_assert(list!=0 || ip!=0,"nonempty");
}
