/* C15 probe: sequential rely/guarantee harness. Thread under test: consumer (rid 0). Environment: producers doing whole real inserts at every atomic point. */
#include <datatypes/msg_queue.c>
#include <stdlib.h>
struct simulation_configuration global_config;
__thread rid_t rid; nid_t n_nodes=1, nid; uint64_t lid_node_first; lp_id_t n_lps_node;
void vlogger(enum log_level l, char *f, unsigned ln, const char *fmt, ...){(void)l;(void)f;(void)ln;(void)fmt;}
void msg_allocator_free(struct lp_msg *m){(void)m;}
void *realloc(void *p, size_t n){ (void)p; (void)n; __CPROVER_assert(0, "array growth not needed within the bound"); __CPROVER_assume(0); return 0; }
double nondet_d(void); _Bool nondet_b(void); unsigned nondet_u(void);
#ifndef NM
#define NM 3
#endif
static struct lp_msg *P[NM]; static unsigned state[NM]; /* 0 = not yet inserted, 1 = insert completed, 2 = extracted */
static unsigned depth;
void verif_yield(void){
  if(depth) return; depth++;
  for(unsigned k=0;k<NM;k++) if(state[k]==0 && nondet_b()){ rid_t me=rid; rid = 1; msg_queue_insert(P[k]); rid = me; state[k]=1; }
  depth--;
}
void harness(void){
  global_config.n_threads = 2; global_config.lps = 2; n_lps_node = 2; lid_node_first=0;
  queues = malloc(2*sizeof *queues); __CPROVER_assume(queues); queues[0].list=0; queues[1].list=0;
  for(unsigned k=0;k<NM;k++){ P[k]=malloc(sizeof(struct lp_msg)); __CPROVER_assume(P[k]); P[k]->dest=0; P[k]->dest_t=nondet_d(); __CPROVER_assume(P[k]->dest_t>=0.0 && P[k]->dest_t<1e9); P[k]->pl_size=0; P[k]->raw_flags=nondet_u()&1; P[k]->m_type=nondet_u(); }
  rid = 0; heap_init(mqp);
  for(unsigned round=0; round<2; round++){
    _Bool before[NM]; for(unsigned k=0;k<NM;k++) before[k]= state[k]==1;
    simtime_t pk = msg_queue_time_peek();
    for(unsigned k=0;k<NM;k++) if(before[k]) __CPROVER_assert(pk <= P[k]->dest_t, "peek <= every message inserted before the peek began and not yet extracted");
    struct lp_msg *m = msg_queue_extract();
    if(m){ unsigned k; for(k=0;k<NM;k++) if(P[k]==m) break; __CPROVER_assert(k<NM && state[k]==1, "extracted a message that was inserted and not yet extracted"); state[k]=2;
           __CPROVER_assert(m->dest_t >= pk, "extract is not below the preceding peek"); }
  }
  /* quiesce: let remaining producers finish, then drain */
  depth=1; for(unsigned k=0;k<NM;k++) if(state[k]==0){ rid=1; msg_queue_insert(P[k]); rid=0; state[k]=1; }
  for(unsigned i=0;i<NM;i++){ struct lp_msg *m = msg_queue_extract(); if(m){ unsigned k; for(k=0;k<NM;k++) if(P[k]==m) break; __CPROVER_assert(k<NM && state[k]==1, "drain: real, once"); state[k]=2; } }
  for(unsigned k=0;k<NM;k++) __CPROVER_assert(state[k]==2, "every message extracted exactly once");
  __CPROVER_assert(msg_queue_extract()==NULL, "queue empty");
#ifdef WITNESS
  __CPROVER_assert(0,"witness");
#endif
}
