/* C04 core: one complete thread-level reduction (phases A..D) of the real gvt_thread_phase_run under CBMC threads */
#include <gvt/gvt.c>
#include <distributed/no_mpi.c>
#include <distributed/control_msg.c>
#include <pthread.h>
struct simulation_configuration global_config;
__thread rid_t rid; nid_t n_nodes=1, nid;
void vlogger(enum log_level l, char *f, unsigned ln, const char *fmt, ...){(void)l;(void)f;(void)ln;(void)fmt;}
void termination_on_ctrl_msg(void){}
bool sync_thread_barrier(void){return 1;}
unsigned nondet_u(void); double nondet_d(void); _Bool nondet_b(void);
int gettimeofday(struct timeval *tv, void *tz){(void)tz; tv->tv_sec=0; tv->tv_usec=0; return 0;}
#ifndef NT
#define NT 2
#endif
#ifndef S
#define S 7
#endif
#define CAP 2
static double pend[NT][CAP];
static _Bool done_flag[NT];
simtime_t msg_queue_time_peek(void){
  double m = SIMTIME_MAX;
  __CPROVER_atomic_begin();
  for(int i=0;i<CAP;i++) if(pend[rid][i]>=0.0 && pend[rid][i]<m) m=pend[rid][i];
  __CPROVER_atomic_end();
  return m;
}
static void process_one(void){
  double t=-1.0; int slot=-1;
  __CPROVER_atomic_begin();
  for(int i=0;i<CAP;i++) if(pend[rid][i]>=0.0 && (slot<0 || pend[rid][i]<t)){ t=pend[rid][i]; slot=i; }
  if(slot>=0) pend[rid][slot]=-1.0;
  __CPROVER_atomic_end();
  if(slot>=0){
    gvt_on_msg_extraction(t);
    /* all threads done => the reduction result is final: nothing below it may be extracted any more */
    _Bool all=1; double g=SIMTIME_MAX;
    __CPROVER_atomic_begin(); for(int k=0;k<NT;k++){ all = all && done_flag[k]; if(reducing_p[k]<g) g=reducing_p[k]; } __CPROVER_atomic_end();
    if(all) __CPROVER_assert(t >= g, "no extraction below the reduced minimum after the reduction completed");
    if(nondet_b()){ unsigned d=nondet_u()%NT; unsigned sl=nondet_u()%CAP; double nt=nondet_d(); __CPROVER_assume(nt>=t && nt<1e9);
      __CPROVER_atomic_begin(); __CPROVER_assume(pend[d][sl]<0.0); pend[d][sl]=nt; __CPROVER_atomic_end(); }
  }
}
static void *thr(void *arg){
  rid = (rid_t)(unsigned long)arg;
  gvt_start_processing();            /* round begins: accumulator reset, phase A */
  /* four effective calls; a call that makes no progress only reads shared memory, so assuming progress == awaiting the condition */
  for(int ph=0; ph<4; ph++){
    if(nondet_b()) process_one();
    enum thread_phase before = thread_phase;
    _Bool fin = gvt_thread_phase_run();
    __CPROVER_assume(thread_phase != before);
    if(fin) done_flag[rid]=1;
  }
  if(nondet_b()) process_one();
  if(nondet_b()) process_one();
  return 0;
}
void harness(void){
  global_config.n_threads=NT;
  for(int t=0;t<NT;t++) for(int i=0;i<CAP;i++){ pend[t][i]= (i==0)? nondet_d() : -1.0; if(i==0) __CPROVER_assume(pend[t][i]>=1.0 && pend[t][i]<1e9); }
  pthread_t th[NT];
  for(unsigned long i=0;i<NT;i++) pthread_create(&th[i],0,thr,(void*)i);
  for(unsigned long i=0;i<NT;i++) pthread_join(th[i],0);
  _Bool all=1; double g=SIMTIME_MAX; for(int k=0;k<NT;k++){ all = all && done_flag[k]; if(reducing_p[k]<g) g=reducing_p[k]; }
  if(all) for(int t=0;t<NT;t++) for(int i=0;i<CAP;i++) if(pend[t][i]>=0.0) __CPROVER_assert(pend[t][i]>=g, "nothing pending below the reduced minimum");
#ifdef WITNESS
  __CPROVER_assert(!all,"witness: the reduction can complete");
#endif
}
