#include <core/sync.c>
#include <pthread.h>
struct simulation_configuration global_config;
#ifndef NT
#define NT 2
#endif
#ifndef USES
#define USES 4
#endif
unsigned entered[USES], leaders[USES];
static void *thr(void *arg){
  (void)arg;
  for(int k=0;k<USES;k++){
    __CPROVER_atomic_begin(); entered[k]++; __CPROVER_atomic_end();
    _Bool l = sync_thread_barrier();
    __CPROVER_assert(entered[k]==NT,"nobody passes early");
    if(l){ __CPROVER_atomic_begin(); leaders[k]++; __CPROVER_atomic_end(); }
  }
  return 0;
}
void harness(void){
  global_config.n_threads = NT;
  pthread_t t[NT];
  for(int i=0;i<NT;i++) pthread_create(&t[i],0,thr,0);
  for(int i=0;i<NT;i++) pthread_join(t[i],0);
  for(int k=0;k<USES;k++) __CPROVER_assert(leaders[k]==1,"exactly one leader");
#ifdef WITNESS
  __CPROVER_assert(0,"witness");
#endif
}
