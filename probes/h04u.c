/* C04 core, sequentialised: real gvt_thread_phase_run / gvt_on_msg_extraction / gvt_start_processing; thread-locals swapped by the harness */
#include <gvt/gvt.c>
#include <distributed/no_mpi.c>
#include <distributed/control_msg.c>
struct simulation_configuration global_config;
__thread rid_t rid; nid_t n_nodes=1, nid;
void vlogger(enum log_level l, char *f, unsigned ln, const char *fmt, ...){(void)l;(void)f;(void)ln;(void)fmt;}
void termination_on_ctrl_msg(void){}
bool sync_thread_barrier(void){return 1;}
unsigned nondet_u(void); _Bool nondet_b(void);
static const double TS[8]={1.0,2.0,3.0,4.0,5.0,6.0,7.0,8.0};
static double nondet_d(void){ return TS[nondet_u()%8]; }
int gettimeofday(struct timeval *tv, void *tz){(void)tz; tv->tv_sec=0; tv->tv_usec=0; return 0;}
#ifndef NT
#define NT 2
#endif
#ifndef K
#define K 14
#endif
#define CAP 3
static double pend[NT][CAP];
static _Bool done_flag[NT];
static struct { enum thread_phase ph; simtime_t acc; } ctx[NT];
static void load(unsigned t){ rid=t; thread_phase=ctx[t].ph; gvt_accumulator=ctx[t].acc; }
static void save(unsigned t){ ctx[t].ph=thread_phase; ctx[t].acc=gvt_accumulator; }
simtime_t msg_queue_time_peek(void){ double m = SIMTIME_MAX; for(int i=0;i<CAP;i++) if(pend[rid][i]>=0.0 && pend[rid][i]<m) m=pend[rid][i]; return m; }
static double final_g(void){ double g=SIMTIME_MAX; for(int k=0;k<NT;k++) if(reducing_p[k]<g) g=reducing_p[k]; return g; }
static _Bool all_done(void){ _Bool a=1; for(int k=0;k<NT;k++) a = a && done_flag[k]; return a; }
void harness(void){
  global_config.n_threads=NT;
  for(int t=0;t<NT;t++) for(int i=0;i<CAP;i++){ pend[t][i]= nondet_b()? nondet_d() : -1.0; __CPROVER_assume(pend[t][i]<0.0 || (pend[t][i]>=1.0 && pend[t][i]<1e9)); }
  static _Bool started[NT];
  for(unsigned t=0;t<NT;t++){ ctx[t].ph=thread_phase_idle; ctx[t].acc=SIMTIME_MAX; }
  for(unsigned step=0; step<K; step++){
    unsigned t = nondet_u()%NT; load(t);
    if(nondet_b()){
      double ts=-1.0; int slot=-1;
      for(int i=0;i<CAP;i++) if(pend[t][i]>=0.0 && (slot<0 || pend[t][i]<ts)){ ts=pend[t][i]; slot=i; }
      if(slot>=0){ pend[t][slot]=-1.0; gvt_on_msg_extraction(ts);
        if(all_done()) __CPROVER_assert(ts >= final_g(), "no extraction below the reduced minimum once the reduction completed");
        if(nondet_b()){ unsigned d=nondet_u()%NT, sl=nondet_u()%CAP; double nt=nondet_d(); __CPROVER_assume(nt>=ts && nt<1e9 && pend[d][sl]<0.0); pend[d][sl]=nt; } }
    } else if(!started[t]) { /* round entry as in gvt_phase_run(): the initiator any time, the others once c_b is non-zero */
      if(t==0 || atomic_load_explicit(&c_b, memory_order_relaxed)){ gvt_start_processing(); started[t]=1; }
    } else if(!done_flag[t]) { if(gvt_thread_phase_run()) done_flag[t]=1; }
    save(t);
  }
  if(all_done()){ double g=final_g(); for(int t=0;t<NT;t++) for(int i=0;i<CAP;i++) if(pend[t][i]>=0.0) __CPROVER_assert(pend[t][i]>=g, "nothing pending below the reduced minimum"); }
#ifdef WITNESS
  __CPROVER_assert(!all_done(),"witness: the reduction can complete");
#endif
}
