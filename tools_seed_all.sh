#!/bin/bash
# regression over every stored seeded change: apply to /repo, run the registered query of its property, revert.
# usage: tools_seed_all.sh [name-regex]; prints one line per seed: CAUGHT / MISSED / NOVERDICT
cd /verif
python3 - "$1" <<'PY'
import json, subprocess, sys, re
idx = json.load(open('/verif/seeded/INDEX.json'))
pat = sys.argv[1] if len(sys.argv) > 1 and sys.argv[1] else '.'
for name, (prop, q) in sorted(idx.items()):
    if not re.search(pat, name):
        continue
    r = subprocess.run(['git', '-C', '/repo', 'apply', '/verif/seeded/%s/patch.diff' % name], capture_output=True, text=True)
    if r.returncode:
        print(name, 'PATCH-DOES-NOT-APPLY', r.stderr.strip()[:100]); continue
    try:
        c = subprocess.run(['./check', prop, '--no-evidence', '--only', q], capture_output=True, text=True)
    finally:
        subprocess.run(['git', '-C', '/repo', 'checkout', '--', '.'])
    out = c.stdout
    verdict = 'CAUGHT' if c.returncode == 1 and 'VIOLATION property=%s' % prop in out else ('NOVERDICT' if c.returncode == 2 else 'MISSED')
    nat = 'native' if 'confirmed natively' in out else ''
    print(name, prop, q, verdict, nat, flush=True)
PY
