/* Harness support: symbolic inputs that can be replayed natively.
 *
 * Under CBMC (the driver passes -DVERIF_CBMC to goto-cc) every input is drawn with
 * vin_raw(): a nondeterministic 64-bit value that is also written to the
 * global VIN_LAST, so the counterexample trace lists the drawn inputs in
 * order.  Under -DVERIF_REPLAY (plain gcc + sanitizers) vin_raw() reads the
 * same sequence back from the replay file, so the native run follows the
 * solver's path through the *same* harness and the *same* real sources.
 */
#pragma once
#include <stdbool.h>
#include <stdint.h>
#include <stddef.h>

#ifdef VERIF_CBMC
uint64_t nondet_verif_u64(void);
uint64_t VIN_LAST;
static inline uint64_t vin_raw(void)
{
	uint64_t v = nondet_verif_u64();
	VIN_LAST = v;
	return v;
}
#define VERIF_ASSUME(c) __CPROVER_assume(c)
#define VERIF_ASSERT(c, msg) __CPROVER_assert((c), msg)
/* reachability witness: this assertion is REQUIRED to fail */
#define VERIF_WITNESS(msg) __CPROVER_assert(0, "WITNESS " msg)
#define VERIF_ATOMIC_BEGIN() __CPROVER_atomic_begin()
#define VERIF_ATOMIC_END() __CPROVER_atomic_end()
#else
#include <stdio.h>
#include <stdlib.h>
static FILE *vin_file;
static unsigned long vin_count;
static inline uint64_t vin_raw(void)
{
	if(!vin_file) {
		const char *p = getenv("VERIF_REPLAY_INPUTS");
		vin_file = p ? fopen(p, "r") : NULL;
		if(!vin_file) {
			fprintf(stderr, "REPLAY: no input file\n");
			exit(4);
		}
	}
	unsigned long long v;
	if(fscanf(vin_file, "%llu", &v) != 1) {
		/* the native run asked for more inputs than the trace has:
		 * the paths diverged */
		fprintf(stderr, "REPLAY: inputs exhausted after %lu draws\n", vin_count);
		exit(5);
	}
	vin_count++;
	return v;
}
#define VERIF_ASSUME(c)                                                                                                \
	do {                                                                                                           \
		if(!(c)) {                                                                                             \
			fprintf(stderr, "REPLAY: assumption violated: %s (%s:%d)\n", #c, __FILE__, __LINE__);          \
			exit(3);                                                                                       \
		}                                                                                                      \
	} while(0)
#define VERIF_ASSERT(c, msg)                                                                                           \
	do {                                                                                                           \
		if(!(c)) {                                                                                             \
			fprintf(stderr, "REPLAY: ASSERTION FAILED: %s (%s:%d)\n", msg, __FILE__, __LINE__);            \
			exit(1);                                                                                       \
		}                                                                                                      \
	} while(0)
#define VERIF_WITNESS(msg) ((void)0)
#define VERIF_ATOMIC_BEGIN() ((void)0)
#define VERIF_ATOMIC_END() ((void)0)
#define __CPROVER_assume(c) VERIF_ASSUME(c)
#define __CPROVER_assert(c, msg) VERIF_ASSERT(c, msg)
#endif

static inline uint8_t vin_u8(void) { return (uint8_t)vin_raw(); }
static inline uint16_t vin_u16(void) { return (uint16_t)vin_raw(); }
static inline uint32_t vin_u32(void) { return (uint32_t)vin_raw(); }
static inline uint64_t vin_u64(void) { return vin_raw(); }
static inline int vin_int(void) { return (int)(uint32_t)vin_raw(); }
static inline bool vin_bool(void) { return (vin_raw() & 1U) != 0; }
static inline double vin_double(void)
{
	union {
		uint64_t u;
		double d;
	} x;
	x.u = vin_raw();
	return x.d;
}
/* an unsigned value in [0, hi] */
static inline unsigned vin_upto(unsigned hi)
{
	unsigned v = vin_u32();
	VERIF_ASSUME(v <= hi);
	return v;
}
static inline void vin_bytes(void *p, size_t n)
{
	unsigned char *c = p;
	for(size_t i = 0; i < n; i++)
		c[i] = vin_u8();
}
/* a double that is not NaN */
static inline double vin_time(void)
{
	double d = vin_double();
	VERIF_ASSUME(d == d);
	return d;
}

#ifndef VERIF_NO_MAIN
#ifndef VERIF_ENTRY
#define VERIF_ENTRY harness
#endif
void VERIF_ENTRY(void);
#ifndef VERIF_CBMC
int main(void)
{
	VERIF_ENTRY();
	fprintf(stderr, "REPLAY: completed without assertion failure\n");
	return 0;
}
#endif
#endif
