/* Environment stubs shared by the harnesses (each is part of the claim and is
 * listed in the evidence): logging has an empty body, statistics are ignored
 * unless the harness links the real stats.c (define VERIF_REAL_STATS), memory
 * copies of symbolic length are byte loops (CBMC's library models copy through
 * variable-length arrays and explode), dynamic-array growth can be cut. */
#pragma once
#include "verif.h"
#include <ROOT-Sim.h>
#include <stddef.h>

#ifndef VERIF_REAL_LOG
void vlogger(enum log_level level, char *file, unsigned line, const char *fmt, ...)
{
	(void)level;
	(void)file;
	(void)line;
	(void)fmt;
}
#endif

#ifndef VERIF_REAL_STATS
#include <log/stats.h>
#ifdef VERIF_COUNT_STATS
uint64_t verif_stats[STATS_COUNT];
void stats_take(enum stats_thread_type this_stat, uint_fast64_t c) { verif_stats[this_stat] += c; }
uint64_t stats_retrieve(enum stats_thread_type this_stat) { return verif_stats[this_stat]; }
#else
void stats_take(enum stats_thread_type this_stat, uint_fast64_t c)
{
	(void)this_stat;
	(void)c;
}
uint64_t stats_retrieve(enum stats_thread_type this_stat)
{
	(void)this_stat;
	return 0;
}
#endif
void stats_on_gvt(simtime_t gvt) { (void)gvt; }
void stats_dump(void) {}
void stats_global_time_take(enum stats_global_type t) { (void)t; }
void stats_global_init(void) {}
void stats_global_fini(void) {}
void stats_init(void) {}
#endif

#if defined(VERIF_CBMC) && defined(VERIF_BYTE_COPIES)
/* byte-loop models; VERIF_COPY_MAX bounds every copy inside the harness */
void *memcpy(void *d, const void *s, size_t n)
{
	unsigned char *dd = d;
	const unsigned char *ss = s;
	for(size_t i = 0; i < n; i++)
		dd[i] = ss[i];
	return d;
}
void *memmove(void *d, const void *s, size_t n)
{
	unsigned char *dd = d;
	const unsigned char *ss = s;
	if(dd <= ss) {
		for(size_t i = 0; i < n; i++)
			dd[i] = ss[i];
	} else {
		for(size_t i = n; i > 0; i--)
			dd[i - 1] = ss[i - 1];
	}
	return d;
}
void *memset(void *d, int c, size_t n)
{
	unsigned char *dd = d;
	for(size_t i = 0; i < n; i++)
		dd[i] = (unsigned char)c;
	return d;
}
int memcmp(const void *a, const void *b, size_t n)
{
	const unsigned char *aa = a, *bb = b;
	for(size_t i = 0; i < n; i++)
		if(aa[i] != bb[i])
			return aa[i] < bb[i] ? -1 : 1;
	return 0;
}
#endif

#if defined(VERIF_CBMC) && !defined(VERIF_NO_ALIGNED_ALLOC_STUB)
/* CBMC has no model of aligned_alloc: alignment is irrelevant to its memory model */
#include <stdlib.h>
void *aligned_alloc(size_t alignment, size_t n)
{
	(void)alignment;
	return malloc(n);
}
#endif

#if defined(VERIF_CBMC) && defined(VERIF_NO_REALLOC)
/* dynamic-array growth cut: the assertion proves growth is not needed inside
 * the harness bounds, the assumption prunes the path */
void *realloc(void *p, size_t n)
{
	(void)p;
	(void)n;
	__CPROVER_assert(0, "array growth (realloc) is unreachable inside the harness bounds");
	__CPROVER_assume(0);
	return (void *)0;
}
#endif
