#!/usr/bin/env python3
"""Validate MANIFEST.json and evidence files against the schemas (run with python3-vt)."""
import json, sys, glob, jsonschema
ok = True
try:
    jsonschema.validate(json.load(open('/verif/MANIFEST.json')), json.load(open('/root/.vp/MANIFEST.schema.json')))
    print('MANIFEST ok')
except Exception as e:
    ok = False; print('MANIFEST', str(e)[:500])
es = json.load(open('/root/.vp/EVIDENCE.schema.json'))
for f in sorted(glob.glob('/verif/evidence/*.json')):
    try:
        ev = json.load(open(f)); jsonschema.validate(ev, es)
        print(f, 'ok', ev['tier'], ev['coverage'].get('evaluations'), ev['coverage'].get('distinct_nontrivial'), ev['wall_s'])
    except Exception as e:
        ok = False; print(f, 'INVALID', str(e)[:300])
sys.exit(0 if ok else 1)
