#pragma once
/* Verification model of C11 <stdatomic.h> for the SEQUENTIAL rely/guarantee
 * harnesses: every atomic operation is one sequentially consistent step,
 * preceded by a yield point at which the harness may run whole operations of
 * other threads.  verif_rmw_count counts read-modify-write steps. */
typedef enum { memory_order_relaxed, memory_order_consume, memory_order_acquire, memory_order_release, memory_order_acq_rel, memory_order_seq_cst } memory_order;
typedef _Atomic unsigned atomic_uint;
typedef _Atomic int atomic_int;
typedef _Atomic _Bool atomic_bool;
typedef struct { _Bool v; } atomic_flag;
#define ATOMIC_FLAG_INIT {0}
void verif_yield(void);
extern unsigned verif_rmw_count;
#define atomic_load_explicit(P, MO) __extension__({ verif_yield(); __typeof__((void)0, *(P)) __v = *(P); __v; })
#define atomic_store_explicit(P, V, MO) __extension__({ __typeof__((void)0, *(P)) __n = (V); verif_yield(); *(P) = __n; })
#define atomic_exchange_explicit(P, V, MO) __extension__({ __typeof__((void)0, *(P)) __n = (V); verif_yield(); verif_rmw_count++; __typeof__((void)0, *(P)) __o = *(P); *(P) = __n; __o; })
#define atomic_fetch_add_explicit(P, V, MO) __extension__({ __typeof__((void)0, *(P)) __n = (V); verif_yield(); verif_rmw_count++; __typeof__((void)0, *(P)) __o = *(P); *(P) = __o + __n; __o; })
#define atomic_fetch_sub_explicit(P, V, MO) __extension__({ __typeof__((void)0, *(P)) __n = (V); verif_yield(); verif_rmw_count++; __typeof__((void)0, *(P)) __o = *(P); *(P) = __o - __n; __o; })
#define atomic_compare_exchange_strong_explicit(P, E, D, MS, MF) __extension__({ __typeof__((void)0, *(P)) __d = (D); _Bool __r; verif_yield(); verif_rmw_count++; if(*(P) == *(E)) { *(P) = __d; __r = 1; } else { *(E) = *(P); __r = 0; } __r; })
#define atomic_compare_exchange_weak_explicit(P, E, D, MS, MF) atomic_compare_exchange_strong_explicit(P, E, D, MS, MF)
#define atomic_flag_test_and_set_explicit(F, MO) __extension__({ verif_yield(); _Bool __o = (F)->v; (F)->v = 1; __o; })
#define atomic_flag_clear_explicit(F, MO) __extension__({ verif_yield(); (F)->v = 0; })
#define atomic_load(P) atomic_load_explicit(P, memory_order_seq_cst)
#define atomic_store(P, V) atomic_store_explicit(P, V, memory_order_seq_cst)
#define atomic_exchange(P, V) atomic_exchange_explicit(P, V, memory_order_seq_cst)
#define atomic_fetch_add(P, V) atomic_fetch_add_explicit(P, V, memory_order_seq_cst)
#define atomic_fetch_sub(P, V) atomic_fetch_sub_explicit(P, V, memory_order_seq_cst)
