/* C12 (single arena): one inductive step of the real buddy allocator
 * (mm/buddy/buddy.c) from an ARBITRARY tree satisfying the representation
 * invariant.  Covers call histories of any length. */
#include "env.h"
#include <mm/buddy/buddy.c>
#include "buddy_inv.h"
#include <stdlib.h>

static struct buddy_state *mk_state(void)
{
	mk_expo();
	struct buddy_state *s = malloc(sizeof *s);
	VERIF_ASSUME(s != NULL);
	vin_bytes(s->longest, NNODES);
	VERIF_ASSUME(buddy_inv(s));
	return s;
}

void harness_init(void)
{
	mk_expo();
	struct buddy_state *s = malloc(sizeof *s);
	VERIF_ASSUME(s != NULL);
	vin_bytes(s->longest, NNODES);
	buddy_init(s);
	VERIF_ASSERT(buddy_inv(s), "buddy_init establishes the invariant");
	unsigned j = vin_upto(NNODES - 2);
	VERIF_ASSERT(s->longest[j] == expo[j], "after buddy_init every node is fully free");
	VERIF_ASSERT(!buddy_is_live(s, j), "after buddy_init there is no live block");
	void *p = buddy_malloc(s, B_TOTAL_EXP);
	VERIF_ASSERT(p == (void *)s->base_mem, "a fresh arena can serve one block of the full arena size");
	VERIF_WITNESS("init end reachable");
}

void harness_malloc(void)
{
	struct buddy_state *s = mk_state();
	unsigned j = vin_upto(NNODES - 2); /* any pre-existing live block */
	VERIF_ASSUME(buddy_is_live(s, j));
	unsigned char req = vin_u8();
	VERIF_ASSUME(req >= B_BLOCK_EXP && req <= B_TOTAL_EXP);
	unsigned w = vin_upto(ARENA - 1); /* witness byte of client memory */
	unsigned char wb = s->base_mem[w];
	unsigned char root0 = s->longest[0];
	unsigned m = vin_upto(NNODES - 2); /* any node: its live status is the frame witness */
	bool m_live0 = buddy_is_live(s, m);

	void *p = buddy_malloc(s, req);

	if(p) {
		unsigned o = (unsigned)((unsigned char *)p - s->base_mem);
		VERIF_ASSERT(o % (1U << req) == 0 && o + (1U << req) <= ARENA, "block lies inside the arena and is aligned to its size");
		unsigned jo = buddy_off(j), jl = buddy_len(j);
		VERIF_ASSERT(o + (1U << req) <= jo || jo + jl <= o, "new block does not overlap a live block");
		VERIF_ASSERT(buddy_is_live(s, j), "pre-existing live block is still live");
		/* the node of the new block: level req, position o */
		unsigned n = ((o + ARENA) >> req) - 1;
		VERIF_ASSERT(expo[n] == req && buddy_is_live(s, n), "the returned range is recorded as one live block of the requested size");
		if(m == n)
			VERIF_ASSERT(!m_live0, "the returned block was not live before");
		else
			VERIF_ASSERT(buddy_is_live(s, m) == m_live0, "no other node changes its live status (allocated bytes grow by exactly the block size)");
	} else {
		VERIF_ASSERT(root0 < req, "allocation fails only when no free block is large enough");
		VERIF_ASSERT(buddy_is_live(s, m) == m_live0, "a failed allocation changes no live status");
	}
	if(root0 >= req)
		VERIF_ASSERT(p != NULL, "allocation succeeds whenever a large enough free block exists");
	VERIF_ASSERT(buddy_inv(s), "invariant preserved by buddy_malloc");
	VERIF_ASSERT(s->base_mem[w] == wb, "buddy_malloc does not touch client memory");
	VERIF_WITNESS("malloc end reachable");
	if(p && req < B_TOTAL_EXP)
		VERIF_WITNESS("successful allocation next to a live block reachable");
	if(!p)
		VERIF_WITNESS("failed allocation reachable");
}

void harness_free(void)
{
	struct buddy_state *s = mk_state();
	unsigned j = vin_upto(NNODES - 2), k = vin_upto(NNODES - 2);
	VERIF_ASSUME(buddy_is_live(s, j)); /* the block being freed */
	VERIF_ASSUME(k != j && buddy_is_live(s, k)); /* any other live block */
	unsigned w = vin_upto(ARENA - 1);
	unsigned char wb = s->base_mem[w];
	unsigned m = vin_upto(NNODES - 2);
	VERIF_ASSUME(m != j);
	bool m_live0 = buddy_is_live(s, m);

	uint_fast32_t sz = buddy_free(s, s->base_mem + buddy_off(j));

	VERIF_ASSERT(sz == buddy_len(j), "buddy_free returns the size of the freed block");
	VERIF_ASSERT(!buddy_is_live(s, j) && s->longest[j] == expo[j], "the freed block is free again");
	VERIF_ASSERT(buddy_is_live(s, k), "another live block stays live");
	VERIF_ASSERT(buddy_is_live(s, m) == m_live0, "no other node changes its live status (allocated bytes shrink by exactly the block size)");
	VERIF_ASSERT(buddy_inv(s), "invariant preserved by buddy_free");
	VERIF_ASSERT(s->base_mem[w] == wb, "buddy_free does not touch client memory");
	VERIF_ASSERT(s->longest[0] >= expo[j], "the freed space is reusable: a block of that size fits again");
	void *p = buddy_malloc(s, expo[j]);
	VERIF_ASSERT(p != NULL, "re-allocation of the freed size succeeds");
	VERIF_WITNESS("free end reachable");
}

void harness_free_single(void)
{
	/* the only live block is freed: the arena coalesces back to fully free */
	struct buddy_state *s = mk_state();
	unsigned j = vin_upto(NNODES - 2);
	VERIF_ASSUME(buddy_is_live(s, j) && buddy_live_bytes(s) == buddy_len(j));
	buddy_free(s, s->base_mem + buddy_off(j));
	VERIF_ASSERT(s->longest[0] == B_TOTAL_EXP, "freeing the last live block coalesces the whole arena");
	VERIF_ASSERT(buddy_inv(s), "invariant preserved");
	VERIF_WITNESS("free_single end reachable");
}

void harness_realloc_probe(void)
{
	/* buddy_best_effort_realloc: handled iff the block already has the needed size class; never changes the tree */
	struct buddy_state *s = mk_state();
	unsigned j = vin_upto(NNODES - 2);
	VERIF_ASSUME(buddy_is_live(s, j));
	size_t req = vin_u32();
	VERIF_ASSUME(req >= 1 && req <= ARENA);
	unsigned n = vin_upto(NNODES - 2);
	unsigned char before = s->longest[n];
	struct buddy_realloc_res r = buddy_best_effort_realloc(s, s->base_mem + buddy_off(j), req);
	unsigned need = 1U << B_BLOCK_EXP;
	unsigned char ne = B_BLOCK_EXP;
	while(need < req) {
		need <<= 1;
		ne++;
	}
	if(r.handled)
		VERIF_ASSERT(ne == expo[j] && r.variation == 0, "in-place realloc only when the size class is unchanged");
	else
		VERIF_ASSERT(ne != expo[j] && r.original == buddy_len(j), "otherwise the original block size is reported");
	VERIF_ASSERT(s->longest[n] == before, "realloc probe does not modify the tree");
	VERIF_WITNESS("realloc probe end reachable");
}
