/* C10(i) / C15 heap part: one heap_insert or heap_extract (datatypes/heap.h)
 * from an ARBITRARY array satisfying the heap property, for both real
 * instantiations: INST=1 struct q_elem + q_elem_is_before (msg_queue.c, parallel
 * runtime), INST=2 struct lp_msg* + msg_is_before (serial.c). */
#define VERIF_NO_REALLOC
#include "env.h"
#include <stdlib.h>
#include <datatypes/msg_queue.c>

struct simulation_configuration global_config;
__thread rid_t rid;
nid_t n_nodes = 1, nid;
uint64_t lid_node_first;
lp_id_t n_lps_node;
void msg_allocator_free(struct lp_msg *m) { (void)m; }

#ifndef N
#define N 7
#endif
#ifndef INST
#define INST 1
#endif
#define PL 2

static struct lp_msg *P[N + 1];
#if INST == 1
static heap_declare(struct q_elem) hp;
#define CMP q_elem_is_before
#define MSG(i) (hp.items[i].m)
static struct q_elem mk_elem(struct lp_msg *m)
{
	struct q_elem e = {.t = m->dest_t, .m = m};
	return e;
}
#else
static heap_declare(struct lp_msg *) hp;
#define CMP msg_is_before
#define MSG(i) (hp.items[i])
static struct lp_msg *mk_elem(struct lp_msg *m) { return m; }
#endif

static bool is_heap(unsigned n)
{
	bool ok = true;
	for(unsigned i = 1; i < N + 1; i++)
		if(i < n)
			ok = ok && !CMP(hp.items[i], hp.items[(i - 1) / 2]);
	return ok;
}

void harness(void)
{
	array_init(hp); /* capacity 8: count + 1 < 8 inside the bound, growth is cut */
	unsigned n = vin_upto(N - 1);
	for(unsigned k = 0; k < N + 1; k++) {
		P[k] = malloc(sizeof(struct lp_msg));
		VERIF_ASSUME(P[k] != NULL);
		P[k]->dest_t = vin_time();
		P[k]->raw_flags = vin_u32() & 3;
		P[k]->m_type = vin_u32() & 3;
		P[k]->pl_size = vin_upto(PL);
		P[k]->pl[0] = vin_u8();
		P[k]->pl[1] = vin_u8();
	}
	for(unsigned i = 0; i < N; i++)
		if(i < n)
			hp.items[i] = mk_elem(P[i]);
	hp.count = n;
	VERIF_ASSUME(is_heap(n));
	struct lp_msg *root0 = n ? MSG(0) : NULL;
	unsigned w = vin_upto(N);
	if(vin_bool()) {
		array_count_t pos = heap_insert(hp, CMP, mk_elem(P[N]));
		VERIF_ASSERT(hp.count == n + 1 && is_heap(n + 1), "insert keeps the heap property");
		VERIF_ASSERT(pos <= n && MSG(pos) == P[N], "insert reports where the element went");
		unsigned c = 0;
		for(unsigned i = 0; i < N + 1; i++)
			if(i < n + 1 && MSG(i) == P[w])
				c++;
		VERIF_ASSERT(c == ((w < n || w == N) ? 1u : 0u), "insert keeps every element exactly once and adds the new one");
#if INST == 2
		/* the serial runtime dispatches the minimum in place and extracts it afterwards: an event scheduled
		 * meanwhile that is not before it (e.g. a content-identical zero-delay event) must not displace it */
		if(n && !msg_is_before(P[N], root0))
			VERIF_ASSERT(MSG(0) == root0, "an inserted element that is not before the minimum leaves the minimum at the root");
#endif
		VERIF_WITNESS("insert reachable");
		if(pos == 0 && n >= 3)
			VERIF_WITNESS("insert sifting up to the root reachable");
	} else {
		VERIF_ASSUME(n > 0);
#if INST == 1
		struct q_elem r = heap_extract(hp, CMP);
		struct lp_msg *rm = r.m;
#else
		struct lp_msg *r = heap_extract(hp, CMP);
		struct lp_msg *rm = r;
#endif
		VERIF_ASSERT(rm == root0, "extract returns the root");
		VERIF_ASSERT(hp.count == n - 1 && is_heap(n - 1), "extract keeps the heap property");
		for(unsigned i = 0; i < N; i++)
			if(i < n - 1)
				VERIF_ASSERT(!CMP(hp.items[i], r), "the extracted element is not after any remaining one");
		unsigned c = 0;
		for(unsigned i = 0; i < N; i++)
			if(i < n - 1 && MSG(i) == P[w])
				c++;
		VERIF_ASSERT(c + (rm == P[w] ? 1u : 0u) == (w < n ? 1u : 0u), "extract removes exactly the returned element");
		VERIF_WITNESS("extract reachable");
	}
}
