/* C11 (ii): shutdown ownership - no use after free, no double free, from an
 * arbitrary quiescent configuration.  Real code: datatypes/msg_queue.c
 * (msg_queue_fini), mm/msg_allocator.c (alloc/free/free_at_gvt/on_gvt/fini),
 * lp/process.c:process_lp_fini (via the whole units).  CBMC's pointer checks
 * (dereference of deallocated objects, double free) are the oracle. */
#define VERIF_NO_REALLOC
#include "env.h"
#include <stdlib.h>
#include <datatypes/msg_queue.c>
#include <mm/msg_allocator.c>

struct simulation_configuration global_config;
__thread rid_t rid;
nid_t n_nodes = 1, nid;
uint64_t lid_node_first;
lp_id_t n_lps_node;

#define NQ 3
void harness_queue_fini(void)
{
	global_config.n_threads = 1;
	global_config.lps = 1;
	n_lps_node = 1;
	msg_queue_global_init();
	rid = 0;
	msg_allocator_init();
	msg_queue_init();
	unsigned char buf[40] = {0};
	unsigned n = vin_upto(NQ);
	unsigned in_heap = vin_upto(NQ);
	for(unsigned k = 0; k < NQ; k++) {
		if(k >= n)
			break;
		unsigned sz = vin_upto(40); /* both sides of the 32-byte inline payload */
		struct lp_msg *m = msg_allocator_pack(0, (simtime_t)(k + 1), 1, buf, sz);
		m->raw_flags = 0;
		msg_queue_insert(m);
		if(k + 1 == in_heap)
			(void)msg_queue_time_peek(); /* moves what is queued so far into the private heap */
	}
	msg_queue_fini();	  /* messages left in the heap and in the buffer at shutdown */
	msg_allocator_fini();	  /* every pooled buffer released exactly once */
	msg_queue_global_fini();
	VERIF_WITNESS("queue fini end reachable");
	if(n >= 2 && in_heap == 0)
		VERIF_WITNESS("two messages left in the inter-thread buffer reachable");
}

void harness_allocator(void)
{
	rid = 0;
	msg_allocator_init();
	unsigned char buf[40] = {0};
	struct lp_msg *m[3];
	for(unsigned k = 0; k < 3; k++) {
		m[k] = msg_allocator_pack(0, vin_time(), 1, buf, vin_upto(40));
		VERIF_ASSERT(m[k]->pl_size <= 40, "allocated buffer records its payload size");
	}
	simtime_t g = vin_time();
	msg_allocator_free_at_gvt(m[0]);
	msg_allocator_free_at_gvt(m[1]);
	simtime_t t0 = m[0]->dest_t, t1 = m[1]->dest_t;
	msg_allocator_on_gvt(g);
	/* a parked buffer is recycled only when its timestamp is below GVT */
	unsigned parked = array_count(at_gvt_list);
	VERIF_ASSERT(parked == (unsigned)!(t0 < g) + (unsigned)!(t1 < g), "a buffer parked until GVT is released iff its timestamp is below the GVT (C04: nothing below GVT is needed again)");
	msg_allocator_free(m[2]);
	struct lp_msg *r = msg_allocator_alloc(vin_upto(32));
	r->dest_t = 0;
	msg_allocator_free(r);
	msg_allocator_fini();
	VERIF_WITNESS("allocator end reachable");
}
