/* C02 (M1): stamping of remote messages and anti-messages and conservation of
 * the per-colour counters of the distributed GVT.  Real code: the inline
 * functions of gvt/gvt.h (gvt_remote_msg_send, gvt_remote_anti_msg_send,
 * gvt_remote_msg_receive, gvt_remote_anti_msg_receive). */
#include "env.h"
#include <gvt/gvt.h>

struct simulation_configuration global_config;
__thread rid_t rid;
nid_t n_nodes, nid;
__thread _Bool gvt_phase;
__thread uint32_t remote_msg_seq[2][MAX_NODES];
__thread uint32_t remote_msg_received[2];

static void stamp(struct lp_msg *m, nid_t node, rid_t thr, bool phase, uint32_t seq, nid_t dest)
{
	nid = node;
	rid = thr;
	gvt_phase = phase;
	remote_msg_seq[phase][dest] = seq;
	gvt_remote_msg_send(m, dest);
}

void harness(void)
{
	struct lp_msg a, b;
	nid_t na = (nid_t)vin_upto(MAX_NODES - 1), nb = (nid_t)vin_upto(MAX_NODES - 1), dest = (nid_t)vin_upto(MAX_NODES - 1);
	rid_t ra = vin_upto(MAX_THREADS - 1), rb = vin_upto(MAX_THREADS - 1);
	bool pa = vin_bool(), pb = vin_bool();
	uint32_t sa = vin_u32() & 0xffff, sb = vin_u32() & 0xffff;
	stamp(&a, na, ra, pa, sa, dest);
	VERIF_ASSERT(remote_msg_seq[pa][dest] == sa + 1, "a remote send is counted once, under the sender's current colour");
	VERIF_ASSERT((a.raw_flags & 1U) == (unsigned)pa && !(a.raw_flags & 2U), "the message carries the colour it was counted under; the cancel bit is clear");
	stamp(&b, nb, rb, pb, sb, dest);
	/* the id (raw_flags without the two low bits, m_seq) identifies the message among all senders to this destination */
	bool same_sender_msg = na == nb && ra == rb && pa == pb && sa == sb;
	if(!same_sender_msg)
		VERIF_ASSERT((a.raw_flags & ~(uint32_t)3) != (b.raw_flags & ~(uint32_t)3) || a.m_seq != b.m_seq,
		    "two different remote messages (different rank, thread, colour or sequence number) never carry the same id");
	/* the anti-message of a: same id, cancel-time colour, counted once under the cancel-time colour */
	bool pc = vin_bool();
	uint32_t id_a = a.raw_flags & ~(uint32_t)3, seq_a = a.m_seq;
	nid = na;
	rid = ra;
	gvt_phase = pc;
	uint32_t before = remote_msg_seq[pc][dest];
	gvt_remote_anti_msg_send(&a, dest);
	VERIF_ASSERT(remote_msg_seq[pc][dest] == before + 1, "a remote anti-message is counted once under the colour at cancel time");
	VERIF_ASSERT((a.raw_flags & ~(uint32_t)3) == id_a && a.m_seq == seq_a, "the anti-message carries the id of the message it cancels");
	/* receiving side: counted under the colour the SENDER counted it under; flags normalised */
	struct lp_msg rx = a, rxe = b;
	uint32_t r0 = remote_msg_received[0], r1 = remote_msg_received[1];
	gvt_remote_anti_msg_receive(&rx);
	VERIF_ASSERT(remote_msg_received[pc] == (pc ? r1 : r0) + 1 && remote_msg_received[!pc] == (pc ? r0 : r1), "the received anti-message is counted under the sender's cancel-time colour (conservation)");
	VERIF_ASSERT((rx.raw_flags & 3U) == MSG_FLAG_ANTI && (rx.raw_flags & ~(uint32_t)3) == id_a, "a received anti-message looks cancelled and keeps its id");
	r0 = remote_msg_received[0];
	r1 = remote_msg_received[1];
	gvt_remote_msg_receive(&rxe);
	VERIF_ASSERT(remote_msg_received[pb] == (pb ? r1 : r0) + 1, "the received event is counted under the sender's colour (conservation)");
	VERIF_ASSERT((rxe.raw_flags & 3U) == 0 && (rxe.raw_flags & ~(uint32_t)3) == (b.raw_flags & ~(uint32_t)3) && rxe.raw_flags > 3U, "a received event looks fresh (not processed, not cancelled) and keeps a non-zero id");
	VERIF_WITNESS("stamp end reachable");
	if(ra == MAX_THREADS - 1 && na != nb)
		VERIF_WITNESS("highest thread id on two different ranks reachable");
}
