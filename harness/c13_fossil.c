/* C13 (b,c): fossil collection of one LP keeps what a legal rollback can need.
 * Real code: gvt/fossil.c:fossil_lp_collect + fossil_on_gvt, with the real
 * mm/buddy/multi.c:model_allocator_fossil_lp_collect and
 * model_allocator_checkpoint_restore on the checkpoint log (no arenas: the
 * per-arena part is C05).  History = symbolic array of <= H entries. */
#define VERIF_BYTE_COPIES
#define VERIF_NO_REALLOC
#include "env.h"
#include <stdlib.h>
#include <gvt/fossil.c>
#include <mm/buddy/buddy.c>
#include <mm/buddy/ckpt.c>
#include <mm/buddy/multi.c>

struct simulation_configuration global_config;
__thread struct lp_ctx *current_lp;
struct lp_ctx *lps;

#ifndef H
#define H 6
#endif
#define NLOGS 3

static struct lp_msg *M[H];
static unsigned freed[H];
static unsigned bad_free;
void msg_allocator_free(struct lp_msg *m)
{
	for(unsigned k = 0; k < H; k++)
		if(M[k] == m) {
			freed[k]++;
			return;
		}
	bad_free++;
}

static struct lp_ctx lp;
void harness(void)
{
	lps = &lp;
	current_lp = &lp;
	struct process_ctx *p = &lp.p;
	array_init(p->p_msgs);
	model_allocator_lp_init(&lp.mm_state);
	unsigned n = 1 + vin_upto(H - 1);
	unsigned kind[H]; /* 0 processed, 1 local-sent, 2 remote-sent */
	simtime_t last_t = 0.0;
	for(unsigned k = 0; k < H; k++) {
		M[k] = malloc(sizeof(struct lp_msg));
		VERIF_ASSUME(M[k] != NULL);
		kind[k] = vin_upto(2);
		if(k >= n)
			continue;
		if(k == n - 1)
			kind[k] = 0; /* the newest entry is always a processed event */
		if(kind[k] == 0) {
			simtime_t t = vin_time();
			VERIF_ASSUME(t >= last_t && t < SIMTIME_MAX); /* processed events are in timestamp order */
			M[k]->dest_t = last_t = t;
			array_push(p->p_msgs, M[k]);
		} else {
			M[k]->dest_t = vin_time();
			array_push(p->p_msgs, (struct lp_msg *)((uintptr_t)M[k] | kind[k]));
		}
	}
	/* checkpoint log: strictly increasing positions, each right after a processed event (or 0),
	 * the oldest not after the first processed event */
	unsigned first_proc = 0;
	for(unsigned k = H; k-- > 0;)
		if(k < n && kind[k] == 0)
			first_proc = k;
	unsigned nl = 1 + vin_upto(NLOGS - 1);
	array_count_t refs[NLOGS];
	struct mm_checkpoint *cs[NLOGS];
	for(unsigned j = 0; j < NLOGS; j++) {
		if(j >= nl)
			break;
		refs[j] = vin_upto(H);
		VERIF_ASSUME(refs[j] <= n && (refs[j] == 0 || kind[refs[j] - 1] == 0));
		VERIF_ASSUME(j == 0 ? refs[j] <= first_proc + 1 : refs[j] > refs[j - 1]);
		model_allocator_checkpoint_take(&lp.mm_state, refs[j]);
		cs[j] = array_get_at(lp.mm_state.logs, j).c;
	}
	simtime_t gvt = vin_time();
	VERIF_ASSUME(gvt >= 0.0);
	unsigned epoch0 = fossil_epoch_current;
	lp.fossil_epoch = epoch0;
	fossil_on_gvt(gvt);
	VERIF_ASSERT(fossil_is_needed(&lp), "a new GVT makes every LP due for fossil collection");

	fossil_lp_collect(&lp);

	unsigned cnt = array_count(p->p_msgs);
	VERIF_ASSERT(cnt <= n, "history only shrinks");
	unsigned R = n - cnt; /* removed prefix length */
	/* committed frontier: index after the newest processed event below GVT */
	unsigned frontier = 0;
	bool any = false;
	for(unsigned k = 0; k < H; k++)
		if(k < n && kind[k] == 0 && M[k]->dest_t < gvt) {
			frontier = k + 1;
			any = true;
		}
	/* expected: the newest checkpoint position not after the frontier */
	unsigned exp_j = 0;
	for(unsigned j = 1; j < NLOGS; j++)
		if(j < nl && refs[j] <= frontier)
			exp_j = j;
	if(!any) {
		VERIF_ASSERT(R == 0 && array_count(lp.mm_state.logs) == nl, "nothing is reclaimed when no event is below GVT");
	} else {
		VERIF_ASSERT(R == refs[exp_j], "the removed prefix ends exactly at the newest checkpoint not after the committed frontier");
		VERIF_ASSERT(array_count(lp.mm_state.logs) == nl - exp_j && array_get_at(lp.mm_state.logs, 0).c == cs[exp_j], "that checkpoint is kept, exactly the older ones are discarded");
		VERIF_ASSERT(array_get_at(lp.mm_state.logs, 0).ref_i == 0, "the kept history starts exactly at the kept checkpoint");
		VERIF_ASSERT(lp.fossil_epoch == fossil_epoch_current, "the LP is marked as collected for this GVT");
	}
	for(unsigned k = 0; k < H; k++) {
		if(k >= n)
			continue;
		if(k < R) {
			if(kind[k] == 0)
				VERIF_ASSERT(M[k]->dest_t < gvt, "only committed events (timestamp below GVT) are removed");
			VERIF_ASSERT(freed[k] == (kind[k] == 1 ? 0U : 1U), "removed processed/remote-sent buffers are released exactly once, local-sent ones belong to their receiver");
		} else {
			VERIF_ASSERT(freed[k] == 0, "kept entries are not released");
			VERIF_ASSERT(array_get_at(p->p_msgs, k - R) == (kind[k] ? (struct lp_msg *)((uintptr_t)M[k] | kind[k]) : M[k]), "the kept history is the old history minus the removed prefix, in order");
		}
	}
	VERIF_ASSERT(bad_free == 0, "nothing else is released");
	for(unsigned j = 0; j < NLOGS; j++)
		if(j < nl && j >= (any ? exp_j : 0))
			VERIF_ASSERT(array_get_at(lp.mm_state.logs, j - (any ? exp_j : 0)).ref_i + R == refs[j], "positions of kept checkpoints stay consistent with the shortened history");
	/* (c) any later legal rollback target (a group boundary at/after the committed frontier) finds a checkpoint */
	unsigned tgt = vin_upto(H);
	VERIF_ASSUME(tgt <= cnt && tgt + R >= frontier && (tgt == 0 || kind[tgt + R - 1] == 0));
	if(any || refs[0] <= tgt) {
		array_count_t r = model_allocator_checkpoint_restore(&lp.mm_state, tgt);
		VERIF_ASSERT(r <= tgt, "a rollback to any still-uncommitted position finds a checkpoint not after it");
	}
	VERIF_WITNESS("fossil end reachable");
	if(any && R >= 2 && exp_j >= 1)
		VERIF_WITNESS("collection discarding a checkpoint and a 2+ entry prefix reachable");
}
