/* C09 (a,b): the library random stream of an LP is a function of (seed, LP id)
 * and of nothing else, and every library draw is a function of the calling
 * LP's generator state only (so it replays after a rollback, whatever other
 * LPs hosted by the same thread did in between).
 * Real code: lib/random/random.c, lib/random/xxtea.c (whole units). */
#define VERIF_NO_MAIN
#include "env.h"
#include <math.h>
#ifdef VERIF_CBMC
/* libm as uninterpreted (deterministic) functions: only determinism matters here */
double __CPROVER_uninterpreted_log(double);
double __CPROVER_uninterpreted_exp(double);
double __CPROVER_uninterpreted_pow(double, double);
double __CPROVER_uninterpreted_sqrt(double);
double sqrt(double x) { return __CPROVER_uninterpreted_sqrt(x); } /* CBMC's own sqrt model is nondeterministic */
double log(double x) { return __CPROVER_uninterpreted_log(x); }
double exp(double x) { return __CPROVER_uninterpreted_exp(x); }
double pow(double b, double e) { return __CPROVER_uninterpreted_pow(b, e); }
#endif
#include <lib/random/random.c>
#include <lib/random/xxtea.c>

struct simulation_configuration global_config;
__thread struct lp_ctx *current_lp;
__thread rid_t rid;
nid_t n_nodes = 1, nid;
uint64_t lid_node_first;
lp_id_t n_lps_node;
struct lp_ctx *lps;

/* (a) seeding depends on (seed, lp) only: arbitrary different placement globals on the two sides */
static void placement(void)
{
	nid = (nid_t)vin_u32();
	n_nodes = (nid_t)vin_u32();
	rid = vin_u32();
	lid_node_first = vin_u64();
	n_lps_node = vin_u64();
	global_config.n_threads = vin_u32();
	global_config.lps = vin_u64();
	global_config.ckpt_interval = vin_u32();
	global_config.gvt_period = vin_u32();
	global_config.core_binding = vin_bool();
}
void harness_seed(void)
{
	uint64_t seed = vin_u64();
	lp_id_t id = vin_u64();
	struct rng_ctx a, b;
	vin_bytes(&a, sizeof a); /* whatever the memory held before */
	vin_bytes(&b, sizeof b);
	placement();
	global_config.prng_seed = seed;
	random_lib_lp_init(id, &a);
	placement();
	global_config.prng_seed = seed;
	random_lib_lp_init(id, &b);
	VERIF_ASSERT(a.state[0] == b.state[0] && a.state[1] == b.state[1] && a.state[2] == b.state[2] && a.state[3] == b.state[3],
	    "the initial generator state of an LP is a function of the seed and the LP id only (not of rank, thread, layout, checkpoint interval, GVT period)");
	__CPROVER_assert(0, "WITNESS seed end reachable");
}

/* (b) every draw replays: FN selects the library function */
#ifndef FN
#define FN 0
#endif
static double draw(void)
{
#if FN == 0
	return Random();
#elif FN == 1
	return (double)RandomRange(3, 17);
#elif FN == 2
	return (double)RandomRangeNonUniform(5, 2, 9);
#elif FN == 3
	return Poisson();
#elif FN == 4
	return Normal();
#elif FN == 5
	return Gamma(3);
#elif FN == 6
	return (double)Zipf(1.5, 10);
#else
	return (double)(RandomU64() >> 11);
#endif
}
static bool same(double x, double y) { return x == y || (x != x && y != y); }
void harness_replay(void)
{
	static struct lp_ctx A, B;
	static struct rng_ctx ra, rb, r0;
	for(int i = 0; i < 4; i++) {
#ifdef SEEDK
		/* concrete generator states (FP-heavy functions only: symbolic states are not decided by any back end);
		 * hidden state outside the generator does not depend on the values drawn */
		r0.state[i] = 0x9e3779b97f4a7c15ULL * (uint64_t)(SEEDK + i + 1);
		rb.state[i] = 0xd1b54a32d192ed03ULL * (uint64_t)(SEEDK + 2 * i + 3);
#else
		r0.state[i] = vin_u64();
		rb.state[i] = vin_u64();
#endif
	}
	A.rng_ctx = &ra;
	B.rng_ctx = &rb;
	/* history before: possibly a draw by this LP from some other state, possibly a draw by another LP */
	if(vin_bool()) {
		ra = rb;
		current_lp = &A;
		(void)draw();
	}
	ra = r0;
	current_lp = &A;
	double v1 = draw();
	struct rng_ctx after1 = ra;
	if(vin_bool()) { /* the LP may go on speculatively (any parity of draws before the rollback) */
		double v1b = draw();
		(void)v1b;
	}
	current_lp = &B; /* another LP hosted by the same thread draws in between */
	(void)draw();
	ra = r0; /* rollback: the LP's generator is restored from the checkpoint */
	current_lp = &A;
	double v2 = draw();
#ifndef NOVAL
	VERIF_ASSERT(same(v1, v2), "a library draw is a function of the calling LP's generator state only: it replays the same value after a rollback, whatever other LPs did in between");
#else
	(void)v1;
	(void)v2;
	(void)same;
#endif
	VERIF_ASSERT(ra.state[0] == after1.state[0] && ra.state[1] == after1.state[1] && ra.state[2] == after1.state[2] && ra.state[3] == after1.state[3],
	    "and it advances the generator identically");
	__CPROVER_assert(0, "WITNESS replay end reachable");
}
