/* C14: every LP has exactly one owner and routing agrees with ownership.
 * Real code: lp/lp.c (partition_start macro, lp_global_init, lp_init, lp_fini)
 * and lp/lp.h (lid_to_nid, lid_to_rid), whole unit included. */
#include "env.h"
#include <lp/lp.c>
#include <core/core.c>

struct simulation_configuration global_config;

#ifndef MAXLP
#define MAXLP 16
#endif
#ifndef MAXN
#define MAXN 4
#endif

/* recording stubs for the per-LP constructors / destructors */
static unsigned inited[2 * MAXLP + 2], finied[2 * MAXLP + 2], seeded[2 * MAXLP + 2], mminit[2 * MAXLP + 2], mmfini[2 * MAXLP + 2], term[2 * MAXLP + 2];
static unsigned order_err;
void model_allocator_lp_init(struct mm_state *self) { mminit[(struct lp_ctx *)((char *)self - offsetof(struct lp_ctx, mm_state)) - lps]++; }
void model_allocator_lp_fini(struct mm_state *self) { mmfini[(struct lp_ctx *)((char *)self - offsetof(struct lp_ctx, mm_state)) - lps]++; }
static struct rng_ctx rngs[2 * MAXLP + 2];
void *rs_malloc(size_t sz)
{
	(void)sz;
	return &rngs[current_lp - lps];
}
void random_lib_lp_init(lp_id_t id, struct rng_ctx *c)
{
	if(c != &rngs[id] || current_lp != &lps[id])
		order_err++;
	seeded[id]++;
}
void auto_ckpt_lp_init(struct auto_ckpt *a) { (void)a; }
void process_lp_init(struct lp_ctx *lp)
{
	if(!mminit[lp - lps] || !seeded[lp - lps])
		order_err++;
	inited[lp - lps]++;
}
void process_lp_fini(struct lp_ctx *lp)
{
	if(mmfini[lp - lps])
		order_err++;
	finied[lp - lps]++;
}
void termination_lp_init(struct lp_ctx *lp) { term[lp - lps]++; }

static struct lp_ctx lp_store[2 * MAXLP + 2];

/* node level: ranges are the preimages of the routing function */
void harness_node(void)
{
	unsigned L = vin_u32(), n = vin_u32(), w = vin_u32();
#ifdef CN
	unsigned N = CN;
#else
	unsigned N = vin_u32();
#endif
	VERIF_ASSUME(L >= 1 && L <= MAXLP && N >= 1 && N <= MAXN && N <= L && n < N && w < L);
	global_config.lps = L;
	global_config.n_threads = vin_upto(MAXN - 1) + 1;
	unsigned T0 = global_config.n_threads;
	n_nodes = N;
	nid = n;
	lp_global_init(); /* the real function */
	VERIF_ASSERT(global_config.n_threads == (n_lps_node < T0 ? n_lps_node : T0), "the thread count is clipped to the number of LPs of the rank");
	VERIF_ASSERT(n_lps_node >= 1, "a rank hosts at least one LP when ranks <= LPs");
	VERIF_ASSERT((n == 0) == (lid_node_first == 0), "rank 0 (and only rank 0) starts at LP 0");
	VERIF_ASSERT((n == N - 1) ? lid_node_first + n_lps_node == L : lid_node_first + n_lps_node < L, "the last rank (and only it) ends at the last LP");
	bool in_node = w >= lid_node_first && w < lid_node_first + n_lps_node;
	VERIF_ASSERT(in_node == (lid_to_nid((lp_id_t)w) == (nid_t)n), "rank range == preimage of lid_to_nid (contiguous, covering, exactly one owner)");
	VERIF_ASSERT(lid_to_nid((lp_id_t)w) >= 0 && lid_to_nid((lp_id_t)w) < (nid_t)N, "routing yields an existing rank");
	/* balance: sizes differ by at most one */
	VERIF_ASSERT(n_lps_node >= L / N && n_lps_node <= L / N + 1, "ranks are balanced (floor or ceil of LPs/ranks)");
	VERIF_WITNESS("node end reachable");
#if !defined(CN) || CN > 1
	if(N > 1 && L % N)
		VERIF_WITNESS("non-divisible case reachable");
#endif
}

/* thread level on an ARBITRARY node range (first, count) */
void harness_thread(void)
{
	unsigned first = vin_u32(), cnt = vin_u32(), r = vin_u32(), w = vin_u32();
#ifdef CT
	unsigned T = CT;
#else
	unsigned T = vin_u32();
#endif
	VERIF_ASSUME(cnt >= 1 && cnt <= MAXLP && first <= MAXLP && T >= 1 && T <= MAXN);
	lid_node_first = first;
	n_lps_node = cnt;
	unsigned TT = cnt < T ? cnt : T; /* the clipping done by lp_global_init */
	global_config.n_threads = TT;
	VERIF_ASSUME(r < TT && w >= first && w < first + cnt);
	rid = r;
	lps = lp_store; /* indexed by global LP id */
	lp_init(); /* the real function, per-LP constructors are recording stubs */
	VERIF_ASSERT(order_err == 0, "per-LP construction order respected");
	VERIF_ASSERT(inited[w] == ((w >= lid_thread_first && w < lid_thread_end) ? 1U : 0U), "lp_init constructs exactly the LPs of the thread's range, once");
	VERIF_ASSERT(inited[w] == (lid_to_rid((lp_id_t)w) == r ? 1U : 0U), "an LP is constructed by the thread that routing names, and by no other");
	VERIF_ASSERT(lid_thread_end > lid_thread_first, "no thread is left without LPs");
	VERIF_ASSERT((r == 0) == (lid_thread_first == first), "thread 0 (and only it) starts at the rank's first LP");
	VERIF_ASSERT((r == TT - 1) == (lid_thread_end == first + cnt), "the last thread (and only it) ends at the rank's last LP");
	bool in_thr = w >= lid_thread_first && w < lid_thread_end;
	VERIF_ASSERT(in_thr == (lid_to_rid((lp_id_t)w) == r), "thread range == preimage of lid_to_rid");
	VERIF_ASSERT(lid_to_rid((lp_id_t)w) < TT, "routing yields an existing thread");
	VERIF_ASSERT(lid_thread_end - lid_thread_first >= cnt / TT && lid_thread_end - lid_thread_first <= cnt / TT + 1, "threads are balanced");
	VERIF_WITNESS("thread end reachable");
#if !defined(CT) || CT > 1
	if(TT > 1 && cnt % TT)
		VERIF_WITNESS("non-divisible thread case reachable");
#endif
}

/* the real lp_global_init / lp_init / lp_fini: each LP constructed and finalised exactly once, by its owner */
#ifdef VERIF_CBMC
void *malloc(size_t n);
#endif
void harness_lifecycle(void)
{
	unsigned L = vin_u32();
#ifdef CN
	unsigned N = CN;
#else
	unsigned N = vin_u32();
#endif
#ifdef CT
	unsigned T = CT;
#else
	unsigned T = vin_u32();
#endif
	unsigned n = vin_u32();
	VERIF_ASSUME(L >= 1 && L <= MAXLP && N >= 1 && N <= MAXN && N <= L && n < N && T >= 1 && T <= MAXN);
	global_config.lps = L;
	global_config.n_threads = T;
	n_nodes = N;
	nid = n;
	/* lp_global_init with the allocation replaced (its arithmetic kept) */
	lid_node_first = partition_start(nid, n_nodes, lid_to_nid, 0, global_config.lps);
	n_lps_node = partition_start(nid + 1, n_nodes, lid_to_nid, 0, global_config.lps) - lid_node_first;
	lps = lp_store; /* indexed by global LP id (the real code shifts the base pointer instead) */
	if(n_lps_node < global_config.n_threads)
		global_config.n_threads = n_lps_node;
	unsigned TT = global_config.n_threads;
	VERIF_ASSERT(TT >= 1 && TT <= T && TT <= n_lps_node, "thread count is clipped to the LPs of the rank");
	for(unsigned t = 0; t < MAXN; t++) {
		if(t >= TT)
			break;
		rid = t;
		lp_init();
		lp_fini();
		VERIF_ASSERT(current_lp == NULL, "lp_fini clears the current LP");
	}
	unsigned w = vin_upto(MAXLP - 1);
	bool mine = w >= lid_node_first && w < lid_node_first + n_lps_node;
	if(mine) {
		unsigned k = w;
		VERIF_ASSERT(inited[k] == 1 && seeded[k] == 1 && mminit[k] == 1 && term[k] == 1, "every LP of the rank is initialised exactly once");
		VERIF_ASSERT(finied[k] == 1 && mmfini[k] == 1, "every LP of the rank is finalised exactly once");
	} else {
		VERIF_ASSERT(inited[w] == 0 && finied[w] == 0 && mminit[w] == 0 && mmfini[w] == 0, "LPs of other ranks are not touched");
	}
	VERIF_ASSERT(order_err == 0, "per-LP construction order: allocator, generator (seeded with the LP id, in the LP's own memory), then process; fini before allocator release");
	VERIF_WITNESS("lifecycle end reachable");
}
