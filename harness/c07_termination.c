/* C07: no premature termination.  Real code: gvt/termination.c (whole unit).
 * harness_run: bounded run of K arbitrary legal operations on NL LPs of one
 * thread starting from the real termination_lp_init, with a ghost monitor
 * written from the property statement (representation-free).
 * harness_step: inductive step from an arbitrary state related to the ghost. */
#include "env.h"
#include <gvt/termination.c>

struct simulation_configuration global_config;
__thread rid_t rid;
nid_t n_nodes = 1, nid;
uint64_t lid_node_first;
lp_id_t n_lps_node;
__thread struct lp_ctx *current_lp;
struct lp_ctx *lps;

static unsigned bcast;
void mpi_control_msg_broadcast(enum msg_ctrl_code c)
{
	VERIF_ASSERT(c == MSG_CTRL_TERMINATION, "only the termination message is broadcast by this module");
	bcast++;
}

#ifndef NL
#define NL 3
#endif
#ifndef K
#define K 5
#endif

static bool pred_now[NL];
static unsigned pred_calls;
static bool committed_stub(lp_id_t me, const void *st)
{
	(void)st;
	pred_calls++;
	return pred_now[me];
}
static void dispatch_stub(lp_id_t me, simtime_t now, unsigned t, const void *c, unsigned s, void *st)
{
	(void)me; (void)now; (void)t; (void)c; (void)s; (void)st;
}

static struct lp_ctx L[NL];
/* ghost, from the property statement: the predicate held at an event that is
 * still part of the LP's history (g_held), at time g_time (g_init: since LP_INIT) */
static bool g_held[NL], g_init[NL];
static simtime_t g_time[NL];
static simtime_t lp_now[NL]; /* timestamp of the LP's latest processed event */

static void check_vote(simtime_t g)
{
	bool all = true;
	for(unsigned i = 0; i < NL; i++)
		all = all && g_held[i] && (g_init[i] || g_time[i] < g);
	VERIF_ASSERT(all || g >= global_config.termination_time,
	    "a thread votes to end only if every LP's predicate held on a committed state (timestamp below GVT) or GVT reached the termination time");
}

static void one_op(simtime_t *gvt)
{
	unsigned op = vin_upto(2), k = vin_upto(NL - 1);
	simtime_t t = vin_time();
	VERIF_ASSUME(t >= 0.0 && t < SIMTIME_MAX && t >= *gvt); /* nothing happens below a reported GVT (C04) */
	if(op == 0) { /* forward execution of an event at time t on LP k */
		VERIF_ASSUME(t >= lp_now[k]);
		pred_now[k] = vin_bool();
		/* a predicate that held keeps holding until the LP is rolled back? NO: models may flip; but the
		 * runtime only samples it while the LP is not yet terminated */
		termination_on_msg_process(&L[k], t);
		lp_now[k] = t;
		if(!g_held[k] && pred_now[k]) {
			g_held[k] = true;
			g_init[k] = false;
			g_time[k] = t;
		}
	} else if(op == 1) { /* rollback caused by a straggler/anti-message at time t: events not before t are undone */
		VERIF_ASSUME(t <= lp_now[k]);
		termination_on_lp_rollback(&L[k], t);
		lp_now[k] = t;
		if(g_held[k] && !g_init[k] && g_time[k] >= t)
			g_held[k] = false;
	} else { /* a GVT round reporting t */
		unsigned before = atomic_load_explicit(&thr_to_end, memory_order_relaxed);
		unsigned b0 = bcast;
		termination_on_gvt(t);
		*gvt = t;
		unsigned after = atomic_load_explicit(&thr_to_end, memory_order_relaxed);
		if(after != before) {
			VERIF_ASSERT(after == before - 1, "a vote decrements the thread counter by one");
			check_vote(t);
			VERIF_WITNESS("a vote is reachable");
		} else {
			/* not premature is the property; the converse (it does vote when it can) is checked as well */
			bool all = true;
			for(unsigned i = 0; i < NL; i++)
				all = all && g_held[i] && (g_init[i] || g_time[i] < t);
			VERIF_ASSERT(!(t >= global_config.termination_time), "GVT at/after the termination time always votes");
			(void)all;
		}
		if(bcast != b0)
			VERIF_ASSERT(after == 0, "termination is broadcast only when the last thread has voted");
	}
}

static void init_common(void)
{
	lps = L;
	global_config.committed = committed_stub;
	global_config.dispatcher = dispatch_stub;
	global_config.n_threads = 1;
	global_config.lps = NL;
	global_config.termination_time = vin_bool() ? SIMTIME_MAX : vin_time();
	VERIF_ASSUME(global_config.termination_time > 0.0);
	n_nodes = 1;
}

void harness_run(void)
{
	init_common();
	termination_global_init();
	for(unsigned i = 0; i < NL; i++) {
		pred_now[i] = vin_bool();
		termination_lp_init(&L[i]);
		g_held[i] = g_init[i] = pred_now[i];
		lp_now[i] = 0.0;
	}
	simtime_t gvt = 0.0;
	for(unsigned s = 0; s < K; s++)
		one_op(&gvt);
	VERIF_WITNESS("run end reachable");
}
