/* C12 (multi-arena layer) + C05(b) size accounting: one real call of
 * rs_malloc / rs_calloc / rs_realloc / rs_free from an ARBITRARY allocator
 * state of 1..3 arenas (each an arbitrary invariant-satisfying tree) in any
 * relative address order.  Real code: mm/buddy/multi.c + buddy.c. */
#define VERIF_BYTE_COPIES
#define VERIF_NO_REALLOC
#include "env.h"
#include <stdlib.h>
#include <string.h>
#include <errno.h>
#include <stdio.h>
#include <mm/buddy/buddy.h>

#ifndef NA
#define NA 3
#endif
/* arenas come from one pool object so that pointer comparisons between arenas are well defined;
 * which slot the next new arena gets is the solver's choice (covers every relative address order) */
static struct buddy_state pool[NA];
static bool slot_used[NA];
static unsigned arena_mallocs;
static void *real_malloc(size_t n) { return malloc(n); }
static void *verif_malloc(size_t n)
{
	if(n != sizeof(struct buddy_state))
		return real_malloc(n);
	unsigned k = vin_upto(NA - 1);
	VERIF_ASSUME(!slot_used[k]);
	slot_used[k] = true;
	arena_mallocs++;
	return &pool[k];
}
#define malloc verif_malloc

#include <mm/buddy/buddy.c>
#include <mm/buddy/ckpt.c>
#include <mm/buddy/multi.c>
#include "buddy_inv.h"

struct simulation_configuration global_config;
__thread struct lp_ctx *current_lp;
struct lp_ctx *lps;
static struct lp_ctx lp;
#define HDR ((unsigned)offsetof(struct buddy_checkpoint, base_mem))
#define BASE ((unsigned)(offsetof(struct mm_checkpoint, chkps) + sizeof(struct buddy_state *)))

static bool sorted_and_complete(void)
{
	struct mm_state *s = &lp.mm_state;
	unsigned n = 0;
	for(unsigned a = 0; a < NA; a++)
		n += slot_used[a];
	if(array_count(s->buddies) != n)
		return false;
	unsigned i = 0;
	for(unsigned a = 0; a < NA; a++)
		if(slot_used[a]) {
			if(array_get_at(s->buddies, i) != &pool[a])
				return false;
			i++;
		}
	return true;
}

static unsigned n0;
static void mk_state(unsigned min_arenas)
{
	mk_expo();
	current_lp = &lp;
	lps = &lp;
	struct mm_state *s = &lp.mm_state;
	array_init(s->buddies);
	array_init(s->logs);
	n0 = 0;
	for(unsigned a = 0; a < NA; a++) {
		slot_used[a] = vin_bool();
		if(slot_used[a]) {
			vin_bytes(pool[a].longest, NNODES);
			VERIF_ASSUME(buddy_inv(&pool[a]));
			array_push(s->buddies, &pool[a]);
			n0++;
		}
	}
	VERIF_ASSUME(n0 >= min_arenas);
	s->full_ckpt_size = vin_u32() & 0xfffff; /* any accounted value: each operation is checked for the exact delta (the byte deltas per arena are C12's single-arena step) */
	arena_mallocs = 0;
}

/* a solver-chosen live block (arena wa, node wj) used as frame witness */
static unsigned wa, wj;
static void pick_witness(void)
{
	wa = vin_upto(NA - 1);
	wj = vin_upto(NNODES - 2);
	VERIF_ASSUME(slot_used[wa] && buddy_is_live(&pool[wa], wj));
}
static unsigned char *wit_ptr(void) { return pool[wa].base_mem + buddy_off(wj); }

static unsigned size_class(size_t req)
{
	unsigned sz = 1U << B_BLOCK_EXP;
	while(sz < req)
		sz <<= 1;
	return sz;
}

void harness_malloc(void)
{
	mk_state(0);
	bool have_wit = n0 > 0 && vin_bool();
	if(have_wit)
		pick_witness();
	size_t req = vin_u64();
	uint_fast32_t size0 = lp.mm_state.full_ckpt_size;
	bool fits_somewhere = false;
	unsigned cls = req ? size_class(req <= ARENA ? req : ARENA) : 0;
	unsigned char cexp = 0;
	while((1U << cexp) < cls)
		cexp++;
	for(unsigned a = 0; a < NA; a++)
		fits_somewhere = fits_somewhere || (slot_used[a] && pool[a].longest[0] >= cexp);
	errno = 0;

	unsigned char *p = rs_malloc(req);

	if(req == 0 || req > ARENA) {
		VERIF_ASSERT(p == NULL, "zero-size and over-size requests fail");
		VERIF_ASSERT(req == 0 || errno == ENOMEM, "an over-size request sets ENOMEM");
		VERIF_ASSERT(lp.mm_state.full_ckpt_size == size0 && arena_mallocs == 0, "a failed request changes nothing");
	} else {
		VERIF_ASSERT(p != NULL, "a request of 1..arena-size bytes succeeds (a new arena is created when needed)");
		VERIF_ASSERT(arena_mallocs == (fits_somewhere ? 0U : 1U), "a new arena is created exactly when no existing arena can serve the request");
		unsigned a = (unsigned)(((struct buddy_state *)p) - pool); /* arena containing p */
		bool inside = false;
		for(unsigned k = 0; k < NA; k++)
			if(slot_used[k] && p >= pool[k].base_mem && p + cls <= pool[k].base_mem + ARENA) {
				inside = true;
				a = k;
			}
		VERIF_ASSERT(inside, "the block lies inside allocator-owned memory (one arena's buffer)");
		VERIF_ASSERT(((unsigned)(p - pool[a].base_mem)) % cls == 0 && cls >= req, "the block is aligned to its size and at least as large as requested");
		if(have_wit) {
			VERIF_ASSERT(buddy_is_live(&pool[wa], wj), "a live block stays live");
			VERIF_ASSERT(a != wa || p + cls <= wit_ptr() || wit_ptr() + buddy_len(wj) <= p, "the new block does not overlap a live block");
		}
		VERIF_ASSERT(lp.mm_state.full_ckpt_size == size0 + cls + (fits_somewhere ? 0 : HDR), "the accounted size grows by the block (plus a header for a new arena)");
	}
	VERIF_ASSERT(sorted_and_complete(), "the arena list holds every arena once, in ascending address order");
	for(unsigned k = 0; k < NA; k++)
		if(slot_used[k])
			VERIF_ASSERT(buddy_inv(&pool[k]), "every arena keeps its invariant");
	VERIF_WITNESS("rs_malloc end reachable");
#if NA >= 3
	if(arena_mallocs == 1 && n0 == 2)
		VERIF_WITNESS("third arena created reachable");
#endif
	if(arena_mallocs == 1 && n0 == 1)
		VERIF_WITNESS("second arena created reachable");
	if(p && !arena_mallocs && n0 >= 2)
		VERIF_WITNESS("allocation served by an existing arena among several reachable");
}

void harness_free(void)
{
	mk_state(1);
	pick_witness(); /* stays */
	unsigned fa = vin_upto(NA - 1), fj = vin_upto(NNODES - 2);
	VERIF_ASSUME(slot_used[fa] && buddy_is_live(&pool[fa], fj) && !(fa == wa && fj == wj));
	uint_fast32_t size0 = lp.mm_state.full_ckpt_size;
	rs_free(pool[fa].base_mem + buddy_off(fj));
	VERIF_ASSERT(!buddy_is_live(&pool[fa], fj), "the freed block is free");
	VERIF_ASSERT(buddy_is_live(&pool[wa], wj), "another live block (in any arena) stays live");
	VERIF_ASSERT(lp.mm_state.full_ckpt_size == size0 - buddy_len(fj), "the accounted size shrinks by the block");
	VERIF_ASSERT(sorted_and_complete(), "the arena list is unchanged");
	for(unsigned k = 0; k < NA; k++)
		if(slot_used[k])
			VERIF_ASSERT(buddy_inv(&pool[k]), "every arena keeps its invariant");
	uint_fast32_t size1 = lp.mm_state.full_ckpt_size;
	rs_free(NULL);
	VERIF_ASSERT(lp.mm_state.full_ckpt_size == size1 && buddy_is_live(&pool[wa], wj), "rs_free(NULL) is a no-op");
	VERIF_WITNESS("rs_free end reachable");
	if(fa != wa)
		VERIF_WITNESS("free in one arena with a live block in another reachable");
}

void harness_realloc(void)
{
	mk_state(1);
	pick_witness(); /* the block being reallocated */
	unsigned oa = vin_upto(NA - 1), oj = vin_upto(NNODES - 2); /* another live block: frame */
	bool have_other = vin_bool();
	if(have_other)
		VERIF_ASSUME(slot_used[oa] && buddy_is_live(&pool[oa], oj) && !(oa == wa && oj == wj));
	unsigned char *p = wit_ptr();
	unsigned oldsz = buddy_len(wj);
	vin_bytes(p, oldsz);
	unsigned wi = vin_upto(ARENA - 1); /* a byte of the old content */
	VERIF_ASSUME(wi < oldsz);
	unsigned char wv = p[wi];
	size_t req = vin_u64();
	uint_fast32_t size0 = lp.mm_state.full_ckpt_size;
	errno = 0;

	unsigned char *q = rs_realloc(p, req);

	if(req == 0) {
		VERIF_ASSERT(q == NULL, "realloc to size 0 returns NULL");
		VERIF_ASSERT(buddy_is_live(&pool[wa], wj) && lp.mm_state.full_ckpt_size == size0, "and leaves the block alone");
	} else if(req > ARENA) {
		VERIF_ASSERT(q == NULL && errno == ENOMEM, "an over-size realloc fails with ENOMEM");
		VERIF_ASSERT(buddy_is_live(&pool[wa], wj) && lp.mm_state.full_ckpt_size == size0 && p[wi] == wv,
		    "a failed realloc leaves the original block live, intact and accounted");
	} else {
		unsigned cls = size_class(req);
		VERIF_ASSERT(q != NULL, "realloc to 1..arena-size bytes succeeds");
		if(cls == oldsz)
			VERIF_ASSERT(q == p && buddy_is_live(&pool[wa], wj), "same size class: the block stays in place");
		else if(q != p)
			VERIF_ASSERT(!buddy_is_live(&pool[wa], wj), "the old block is released when the content moves");
		if(wi < req)
			VERIF_ASSERT(q[wi] == wv, "the common prefix of the content is preserved");
		{ /* the returned range is recorded in its arena as ONE live block of the new size class
		   * (this is what the checkpoint traversal copies and what full_ckpt_size must account for) */
			bool rec = false;
			unsigned char cexp = 0;
			while((1U << cexp) < cls)
				cexp++;
			for(unsigned k = 0; k < NA; k++)
				if(slot_used[k] && q >= pool[k].base_mem && q + cls <= pool[k].base_mem + ARENA) {
					unsigned o = (unsigned)(q - pool[k].base_mem);
					unsigned n = ((o + ARENA) >> cexp) - 1;
					rec = o % cls == 0 && expo[n] == cexp && buddy_is_live(&pool[k], n);
				}
			VERIF_ASSERT(rec, "the reallocated block is recorded as one live block of the new size class (tree and accounted size agree)");
		}
		unsigned newa = arena_mallocs ? HDR : 0;
		VERIF_ASSERT(lp.mm_state.full_ckpt_size == (cls == oldsz ? size0 : size0 + cls - oldsz + newa), "the accounted checkpoint size changes by exactly new block - old block (+ header of a new arena)");
	}
	if(have_other)
		VERIF_ASSERT(buddy_is_live(&pool[oa], oj), "another live block stays live");
	VERIF_ASSERT(sorted_and_complete(), "the arena list holds every arena once, in ascending address order");
	VERIF_WITNESS("rs_realloc end reachable");
	if(q && q != p)
		VERIF_WITNESS("moving realloc reachable");
	if(!q && req > ARENA)
		VERIF_WITNESS("failing realloc reachable");
}

void harness_realloc_null(void)
{
	mk_state(0);
	size_t req = vin_u64();
	errno = 0;
	unsigned char *q = rs_realloc(NULL, req);
	if(req == 0)
		VERIF_ASSERT(q == NULL && errno == EINVAL, "realloc(NULL, 0) fails with EINVAL");
	else if(req <= ARENA)
		VERIF_ASSERT(q != NULL, "realloc(NULL, n) behaves as malloc(n)");
	else
		VERIF_ASSERT(q == NULL, "realloc(NULL, over-size) fails");
	VERIF_WITNESS("realloc(NULL) end reachable");
}

#ifndef CALLOC_SIZE
#define CALLOC_SIZE 1
#endif
void harness_calloc(void)
{
	mk_state(0);
	size_t nmemb = vin_u64();
	size_t size = CALLOC_SIZE; /* constant per query: the product is then a shift/constant multiply */
	/* dirty the arenas so that zeroing is visible */
	for(unsigned a = 0; a < NA; a++)
		if(slot_used[a])
			vin_bytes(pool[a].base_mem, ARENA);
	unsigned wi = vin_upto(ARENA - 1);
	unsigned char *p = rs_calloc(nmemb, size);
	bool overflow = nmemb != 0 && ((size_t)(nmemb * size)) / size != nmemb;
	if(overflow || nmemb * size > ARENA || nmemb == 0)
		VERIF_ASSERT(p == NULL, "calloc of zero, over-size or overflowing nmemb*size fails");
	else {
		VERIF_ASSERT(p != NULL, "calloc of 1..arena-size bytes succeeds");
		if(wi < nmemb * size)
			VERIF_ASSERT(p[wi] == 0, "calloc memory is zeroed");
	}
	VERIF_WITNESS("rs_calloc end reachable");
#if CALLOC_SIZE > 1
	if(overflow)
		VERIF_WITNESS("overflowing product reachable");
#endif
}
