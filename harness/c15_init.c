/* C15 / C01 (initialisation order): a worker's inter-thread buffer is reset
 * BEFORE any other worker can insert into it, and is torn down only after
 * every worker stopped inserting.  Real code: parallel/parallel.c
 * (worker_thread_init, worker_thread_fini) with every callee a recording stub;
 * barriers are counted: two operations of different threads are ordered iff a
 * barrier lies between them (all workers run the same code). */
#include "env.h"
#include <parallel/parallel.c>

struct simulation_configuration global_config;
__thread rid_t rid;
nid_t n_nodes = 1, nid;
_Atomic nid_t nodes_to_end;

static unsigned epoch; /* number of barriers passed so far by this worker */
static unsigned e_qinit = 99, e_lpinit = 99, e_allocinit = 99, e_qfini = 99, e_lpfini = 99, e_allocfini = 99, e_drain = 99;
bool sync_thread_barrier(void)
{
	epoch++;
	return vin_bool(); /* any thread may be the leader */
}
void auto_ckpt_init(void) {}
void msg_allocator_init(void) { e_allocinit = epoch; }
void msg_allocator_fini(void) { e_allocfini = epoch; }
void msg_queue_init(void) { e_qinit = epoch; }
void msg_queue_fini(void) { e_qfini = epoch; }
void lp_init(void) { e_lpinit = epoch; } /* LP_INIT handlers may schedule events for LPs of ANY thread */
void lp_fini(void) { e_lpfini = epoch; }
void gvt_msg_drain(void) { e_drain = epoch; epoch += 2; /* contains two barriers */ }
void mpi_node_barrier(void) {}
void mpi_remote_msg_handle(void) {}
void process_msg(void) {}
simtime_t gvt_phase_run(void) { return 0.0; }
void termination_on_gvt(simtime_t g) { (void)g; }
void auto_ckpt_on_gvt(void) {}
void fossil_on_gvt(simtime_t g) { (void)g; }
void msg_allocator_on_gvt(simtime_t g) { (void)g; }
void lp_global_init(void) {}
void lp_global_fini(void) {}
void msg_queue_global_init(void) {}
void msg_queue_global_fini(void) {}
void termination_global_init(void) {}
void gvt_global_init(void) {}
int thread_start(thr_id_t *t, thr_run_fnc f, void *a) { (void)t; (void)f; (void)a; return 0; }
int thread_affinity_set(thr_id_t t, unsigned c) { (void)t; (void)c; return 0; }
int thread_wait(thr_id_t t, thrd_ret_t *r) { (void)t; (void)r; return 0; }

void harness(void)
{
	rid_t me = vin_upto(3);
	worker_thread_init(me);
	VERIF_ASSERT(rid == me, "the worker records its thread id");
	VERIF_ASSERT(e_qinit < e_lpinit, "a worker's inter-thread buffer is reset at least one barrier before any worker runs LP_INIT (whose events may be inserted for any thread): no inserted event is wiped");
	VERIF_ASSERT(e_allocinit <= e_lpinit, "the message allocator is ready before LP_INIT allocates events");
	worker_thread_fini();
	VERIF_ASSERT(e_drain < e_lpfini && e_lpfini <= e_qfini, "shutdown: GVT/MPI drain, then LP_FINI, then the queue is torn down");
	VERIF_ASSERT(e_drain + 2 <= e_qfini, "shutdown: every worker stopped inserting (barriers of the drain) before any queue is torn down");
	VERIF_ASSERT(e_qfini < e_allocfini, "buffers released by the queue teardown of any worker go back to an allocator that is still alive (a barrier separates queue teardown from allocator teardown)");
	VERIF_WITNESS("init order end reachable");
}
