/* C18: numerical library contracts for EVERY generator state.
 * Real code: lib/random/random.c + xoroshiro.h (whole unit included).
 * libm is the trusted base: log/exp/pow are contract stubs under CBMC
 * (floor/ceil/sqrt/fabs are CBMC built-ins, exact). */
#include "env.h"
#include <math.h>

#ifdef VERIF_CBMC
/* contracts: what IEEE-754 libm guarantees and the code relies on */
static unsigned log_calls, log_bad;
double log(double x)
{
	double r = vin_double();
	log_calls++;
	if(!(x > 0.0)) /* domain error or NaN: result -inf/NaN */
		log_bad++;
	VERIF_ASSUME(r == r);
	if(x > 0.0 && x <= DBL_MAX) {
		VERIF_ASSUME(r >= -745.2 && r <= 709.8);
		if(x <= 1.0)
			VERIF_ASSUME(r <= 0.0);
		if(x >= 1.0)
			VERIF_ASSUME(r >= 0.0);
		if(x == 1.0)
			VERIF_ASSUME(r == 0.0);
	}
	return r;
}
double exp(double x)
{
	double r = vin_double();
	VERIF_ASSUME(r == r && r >= 0.0);
	if(x <= 0.0)
		VERIF_ASSUME(r <= 1.0);
	return r;
}
double pow(double b, double e)
{
	double r = vin_double();
	VERIF_ASSUME(r == r);
	if(b >= 0.0) {
		VERIF_ASSUME(r >= 0.0); /* may be +inf */
		if(b < 1.0 && e < 0.0)
			VERIF_ASSUME(r >= 1.0); /* x^-k >= 1 for 0 <= x < 1 (inf for x = 0) */
		if(b >= 1.0 && e >= 0.0)
			VERIF_ASSUME(r >= 1.0);
		if(b >= 1.0 && e <= 0.0)
			VERIF_ASSUME(r <= 1.0 && r > 0.0);
		if(b > 1.0 && e > 0.0)
			VERIF_ASSUME(r > 1.0 || e < 1e-15); /* strictly above 1 unless it rounds */
	}
	return r;
}
#endif

#include <lib/random/random.c>

struct simulation_configuration global_config;
__thread struct lp_ctx *current_lp;
void xxtea_encode(uint32_t *restrict v, unsigned n, uint32_t const key[restrict 4])
{
	(void)v;
	(void)n;
	(void)key;
}

static struct lp_ctx lp;
static struct rng_ctx r, other, other0, r0;

static void setup(void)
{
	for(int i = 0; i < 4; i++) {
		r.state[i] = vin_u64();
		other.state[i] = vin_u64();
	}
	other0 = other;
	r0 = r;
	lp.rng_ctx = &r;
	current_lp = &lp;
}

static bool frame_ok(void)
{
	return other.state[0] == other0.state[0] && other.state[1] == other0.state[1] && other.state[2] == other0.state[2] &&
	       other.state[3] == other0.state[3] && lp.rng_ctx == &r;
}

static bool finite(double d) { return d == d && d <= DBL_MAX && d >= -DBL_MAX; }

/* reference xoshiro256** step, from the published algorithm */
static uint64_t rotl64(uint64_t x, int k) { return (x << k) | (x >> (64 - k)); }

void harness_random(void)
{
	setup();
	double d = Random();
	VERIF_ASSERT(d >= 0.0 && d < 1.0, "Random() lies in [0,1)");
	VERIF_ASSERT(d <= 1.0 - 0x1p-53, "Random() is at most 1 - 2^-53 (contract used by the callers' harnesses)");
	VERIF_ASSERT(frame_ok(), "Random() changes only the calling LP's generator");
	/* the generator advanced exactly one xoshiro256** step */
	uint64_t s0 = r0.state[0], s1 = r0.state[1], s2 = r0.state[2], s3 = r0.state[3];
	uint64_t t = s1 << 17;
	s2 ^= s0;
	s3 ^= s1;
	s1 ^= s2;
	s0 ^= s3;
	s2 ^= t;
	s3 = rotl64(s3, 45);
	VERIF_ASSERT(r.state[0] == s0 && r.state[1] == s1 && r.state[2] == s2 && r.state[3] == s3,
	    "Random() advances the generator by exactly one step");
	/* the value is the top bits of the raw output, scaled: monotone in the raw output */
	uint64_t raw = rotl64(r0.state[1] * 5, 7) * 9;
	if(raw == 0)
		VERIF_ASSERT(d == 0.0, "raw output 0 maps to 0.0");
	else
		VERIF_ASSERT(d > 0.0 && d >= (double)(raw >> 11) * 0x1.0p-53 * 0.999 , "Random() is the raw output scaled to [0,1)");
	VERIF_WITNESS("Random end reachable");
	if(raw == 1)
		VERIF_WITNESS("raw output 1 reachable");
}

void harness_u64(void)
{
	setup();
	uint64_t a = RandomU64();
	VERIF_ASSERT(a == rotl64(r0.state[1] * 5, 7) * 9, "RandomU64 is the xoshiro256** output function");
	VERIF_ASSERT(frame_ok(), "RandomU64() changes only the calling LP's generator");
	/* determinism: same state, same stream */
	struct rng_ctx copy = r0;
	lp.rng_ctx = &copy;
	uint64_t b = RandomU64();
	lp.rng_ctx = &r;
	VERIF_ASSERT(a == b && copy.state[0] == r.state[0] && copy.state[3] == r.state[3], "the stream is a function of the state only");
	VERIF_WITNESS("u64 end reachable");
}

#ifndef GAMMA_MAX
#define GAMMA_MAX 5
#endif
#ifndef RANGE_W
#define RANGE_W 1024
#endif
void harness_range(void)
{
	setup();
	int mn = vin_int(), mx = vin_int();
	VERIF_ASSUME(mn >= 0 && mx >= mn && (long)mx - (long)mn < RANGE_W);
	int v = RandomRange(mn, mx);
	VERIF_ASSERT(v >= mn && v <= mx, "RandomRange(min,max) lies in [min,max]");
	VERIF_ASSERT(frame_ok(), "RandomRange() changes only the calling LP's generator");
	VERIF_WITNESS("range end reachable");
	if(v == mx && mx > mn)
		VERIF_WITNESS("upper end of the range reachable");
}

void harness_range_nu(void)
{
	setup();
	int x = vin_int(), mn = vin_int(), mx = vin_int();
	VERIF_ASSUME(x >= 0 && x < RANGE_W && mn >= 0 && mx >= mn && (long)mx - (long)mn < RANGE_W);
	int v = RandomRangeNonUniform(x, mn, mx);
	VERIF_ASSERT(v >= mn && v <= mx, "RandomRangeNonUniform stays in [min,max]");
	VERIF_ASSERT(frame_ok(), "RandomRangeNonUniform() changes only the calling LP's generator");
	VERIF_WITNESS("range_nu end reachable");
}

#ifdef VERIF_CBMC
/* Contract stub of Random() for the harnesses of functions built on top of it
 * (linked with goto-instrument --replace-calls Random:Random_contract).
 * Discharged by harness_random: the value is in [0,1), at most 1 - 2^-53, a
 * multiple of 2^-64-ish grid is NOT assumed; the caller's generator advances. */
double Random_contract(void)
{
	(void)RandomU64();
	double d = vin_double();
	VERIF_ASSUME(d >= 0.0 && d <= 1.0 - 0x1p-53);
	return d;
}

void harness_poisson(void)
{
	setup();
	double p = Poisson();
	VERIF_ASSERT(log_bad == 0, "Poisson(): log() is only called on (0,1]");
	VERIF_ASSERT(finite(p) && p >= 0.0, "Poisson()/Expent are finite and non-negative");
	double mean = vin_double();
	VERIF_ASSUME(mean >= 0.0 && mean <= 1e300);
	double e = mean * p;
	VERIF_ASSERT(finite(e) && e >= 0.0, "Expent(mean) is finite and non-negative for 0 <= mean <= 1e300");
	VERIF_ASSERT(frame_ok(), "Poisson() changes only the calling LP's generator");
	VERIF_WITNESS("poisson end reachable");
}

void harness_gamma_small(void)
{
	setup();
	unsigned ia = vin_upto(GAMMA_MAX);
	double g = Gamma(ia);
	VERIF_ASSERT(log_bad == 0, "Gamma(ia<6): log() argument is in (0,1]");
	VERIF_ASSERT(finite(g) && g >= 0.0, "Gamma(ia<6) is finite and non-negative");
	VERIF_ASSERT(frame_ok(), "Gamma() changes only the calling LP's generator");
	VERIF_WITNESS("gamma small end reachable");
}

void harness_gamma_big(void)
{
	setup();
	unsigned ia = vin_u32();
	VERIF_ASSUME(ia >= 6 && ia <= 1000000);
	/* one iteration of each rejection loop: paths that reject are cut by the
	 * unwinding bound (unwinding assertions are whitelisted for these loops) */
	double g = Gamma(ia);
	VERIF_ASSERT(g == g && g >= 0.0, "Gamma(ia>=6) is non-negative (accepted sample)");
	VERIF_ASSERT(frame_ok(), "Gamma() changes only the calling LP's generator");
	VERIF_WITNESS("gamma big end reachable");
}

void harness_zipf(void)
{
	setup();
	double skew = vin_double();
	unsigned limit = vin_u32();
	VERIF_ASSUME(skew > 1.0 && skew <= 64.0 && limit >= 1);
	unsigned z = Zipf(skew, limit);
	VERIF_ASSERT(z >= 1 && z <= limit, "Zipf(skew,limit) lies in [1,limit] (accepted sample)");
	VERIF_ASSERT(frame_ok(), "Zipf() changes only the calling LP's generator");
	VERIF_WITNESS("zipf end reachable");
}
#endif
