/* C05 (allocator level, single arena): the checkpoint traversal enumerates
 * exactly the live bytes, and take -> arbitrary damage -> restore gives back
 * the tree and every live byte.  Real code: mm/buddy/ckpt.c (buddy_tree_visit,
 * checkpoint_full_take, checkpoint_full_restore), mm/buddy/buddy.c. */
#define VERIF_BYTE_COPIES
#include "env.h"
#include <mm/buddy/buddy.c>
#include <mm/buddy/ckpt.c>
#include "buddy_inv.h"

struct simulation_configuration global_config;

/* is byte offset `off` inside a live block: walk down from the root to the first node with longest == 0 */
static bool live_at(const unsigned char *lg, unsigned off)
{
	unsigned i = 0;
	for(unsigned d = 0; d <= B_TOTAL_EXP - B_BLOCK_EXP; d++) {
		if(lg[i] == 0)
			return true;
		if(i >= NINT)
			return false;
		unsigned half = 1U << (expo[i] - 1);
		unsigned base = ((i + 1) << expo[i]) - ARENA;
		i = 2 * i + 1 + ((off - base) >= half);
	}
	return false;
}
static unsigned live_bytes(const unsigned char *lg)
{
	unsigned t = 0;
	for(unsigned b = 0; b < ARENA; b += (1U << B_BLOCK_EXP))
		if(live_at(lg, b))
			t += (1U << B_BLOCK_EXP);
	return t;
}

static struct buddy_state s;
static void mk_tree(void)
{
	mk_expo();
	vin_bytes(s.longest, NNODES);
	VERIF_ASSUME(buddy_inv(&s));
}

/* (a1) traversal lemma */
static unsigned total, last_end, nvis, wit_off, wit_hits;
#define rec(o, l)                                                                                                      \
	__extension__({                                                                                                \
		VERIF_ASSERT((o) >= last_end, "visited ranges are ascending and pairwise disjoint");                    \
		VERIF_ASSERT((o) % (l) == 0 && (o) + (l) <= ARENA, "visited range is aligned and inside the arena");    \
		last_end = (o) + (l);                                                                                  \
		total += (l);                                                                                          \
		nvis++;                                                                                                \
		if(wit_off >= (o) && wit_off < (o) + (l))                                                              \
			wit_hits++;                                                                                    \
	})
void harness_visit(void)
{
	mk_tree();
	wit_off = vin_upto(ARENA - 1);
	bool live = live_at(s.longest, wit_off);
	buddy_tree_visit(s.longest, rec);
	VERIF_ASSERT(wit_hits == (live ? 1U : 0U), "the traversal covers a byte exactly once iff it lies in a live block");
	VERIF_ASSERT(total == live_bytes(s.longest), "the visited lengths sum to the allocated bytes");
	VERIF_WITNESS("visit end reachable");
	if(nvis >= 2)
		VERIF_WITNESS("a tree with two separate live ranges reachable");
}

/* (a2) round trip */
static unsigned char bufstore[sizeof(struct buddy_checkpoint) + ARENA + 16] __attribute__((aligned(16)));
void harness_roundtrip(void)
{
	mk_tree();
	vin_bytes(s.base_mem, ARENA);
	unsigned char tree0[NNODES];
	for(unsigned i = 0; i < NNODES; i++)
		tree0[i] = s.longest[i];
	unsigned w = vin_upto(ARENA - 1);
	unsigned char wv = s.base_mem[w];
	bool wlive = live_at(tree0, w);
	unsigned need = offsetof(struct buddy_checkpoint, base_mem) + live_bytes(tree0);
	unsigned char *buf = bufstore;

	struct buddy_checkpoint *end = checkpoint_full_take(&s, (struct buddy_checkpoint *)buf);

	VERIF_ASSERT((unsigned char *)end == buf + need, "a checkpoint occupies exactly header + allocated bytes (what full_ckpt_size accounts for)");
	VERIF_ASSERT(((struct buddy_checkpoint *)buf)->orig == &s, "the checkpoint records the arena it belongs to");
	for(unsigned i = 0; i < NNODES - 1; i++)
		VERIF_ASSERT(s.longest[i] == tree0[i], "taking a checkpoint does not change the tree");
	VERIF_ASSERT(s.base_mem[w] == wv, "taking a checkpoint does not change client memory");
	/* arbitrary later activity: any other valid tree, any memory content */
	vin_bytes(s.longest, NNODES);
	VERIF_ASSUME(buddy_inv(&s));
	vin_bytes(s.base_mem, ARENA);

	const struct buddy_checkpoint *rend = checkpoint_full_restore(&s, (const struct buddy_checkpoint *)buf);

	VERIF_ASSERT((const unsigned char *)rend == buf + need, "restore consumes exactly the bytes the checkpoint occupies");
	for(unsigned i = 0; i < NNODES - 1; i++)
		VERIF_ASSERT(s.longest[i] == tree0[i], "the set of live blocks (allocation tree) is restored");
	if(wlive)
		VERIF_ASSERT(s.base_mem[w] == wv, "every byte of every block live at the checkpoint is restored");
	VERIF_WITNESS("roundtrip end reachable");
	if(wlive && need > offsetof(struct buddy_checkpoint, base_mem) + (1U << B_BLOCK_EXP))
		VERIF_WITNESS("a checkpoint with more than one live block reachable");
}


/* number of live bytes strictly before offset off (position of a live byte inside a checkpoint) */
static unsigned live_rank(const unsigned char *lg, unsigned off)
{
	unsigned t = 0;
	for(unsigned b = 0; b < ARENA; b += (1U << B_BLOCK_EXP))
		if(b + (1U << B_BLOCK_EXP) <= off && live_at(lg, b))
			t += (1U << B_BLOCK_EXP);
	unsigned blk = off & ~((1U << B_BLOCK_EXP) - 1);
	return t + (off - blk);
}

/* (a2-take) the checkpoint is header + tree + the live bytes in ascending address order */
void harness_take(void)
{
	mk_tree();
	vin_bytes(s.base_mem, ARENA);
	unsigned w = vin_upto(ARENA - 1);
	unsigned char wv = s.base_mem[w];
	bool wlive = live_at(s.longest, w);
	unsigned need = offsetof(struct buddy_checkpoint, base_mem) + live_bytes(s.longest);
	struct buddy_checkpoint *c = (struct buddy_checkpoint *)bufstore;
	struct buddy_checkpoint *end = checkpoint_full_take(&s, c);
	VERIF_ASSERT((unsigned char *)end == bufstore + need, "a checkpoint occupies exactly header + allocated bytes (what full_ckpt_size accounts for)");
	VERIF_ASSERT(c->orig == &s, "the checkpoint records the arena it belongs to");
	unsigned n = vin_upto(NNODES - 2);
	VERIF_ASSERT(c->longest[n] == s.longest[n], "the checkpoint holds a copy of the allocation tree");
	if(wlive)
		VERIF_ASSERT(c->base_mem[live_rank(s.longest, w)] == wv, "every live byte is saved, at its rank among the live bytes");
	VERIF_ASSERT(s.base_mem[w] == wv, "taking a checkpoint does not change client memory");
	VERIF_WITNESS("take end reachable");
	if(wlive && live_rank(s.longest, w) >= 2 * (1U << B_BLOCK_EXP) && w > live_rank(s.longest, w))
		VERIF_WITNESS("a live byte behind a hole reachable");
}

/* (a2-restore) from ANY checkpoint content whose tree satisfies the invariant */
void harness_restore(void)
{
	mk_expo();
	struct buddy_checkpoint *c = (struct buddy_checkpoint *)bufstore;
	c->orig = &s;
	vin_bytes(c->longest, NNODES);
	static struct buddy_state t; /* the checkpointed tree, for the invariant check */
	for(unsigned i = 0; i < NNODES; i++)
		t.longest[i] = c->longest[i];
	VERIF_ASSUME(buddy_inv(&t));
	vin_bytes(c->base_mem, ARENA);
	/* the arena holds anything at all (later activity) */
	vin_bytes(s.longest, NNODES);
	vin_bytes(s.base_mem, ARENA);
	unsigned w = vin_upto(ARENA - 1);
	unsigned char w_before = s.base_mem[w];
	unsigned need = offsetof(struct buddy_checkpoint, base_mem) + live_bytes(t.longest);
	const struct buddy_checkpoint *rend = checkpoint_full_restore(&s, c);
	VERIF_ASSERT((const unsigned char *)rend == bufstore + need, "restore consumes exactly the bytes the checkpoint occupies");
	unsigned n = vin_upto(NNODES - 2);
	VERIF_ASSERT(s.longest[n] == t.longest[n], "the set of live blocks (allocation tree) is restored");
	if(live_at(t.longest, w))
		VERIF_ASSERT(s.base_mem[w] == c->base_mem[live_rank(t.longest, w)], "every byte of every block live at the checkpoint is restored from its rank");
	else
		VERIF_ASSERT(s.base_mem[w] == w_before, "bytes outside the checkpointed blocks are not written");
	VERIF_WITNESS("restore end reachable");
}

/* a checkpoint of another arena is refused */
void harness_foreign(void)
{
	mk_tree();
	static struct buddy_state other;
	struct buddy_checkpoint *c = (struct buddy_checkpoint *)bufstore;
	checkpoint_full_take(&other, c);
	unsigned char t0 = s.longest[0];
	VERIF_ASSERT(checkpoint_full_restore(&s, c) == NULL, "a checkpoint taken from another arena is not applied");
	VERIF_ASSERT(s.longest[0] == t0, "and leaves the arena untouched");
	VERIF_WITNESS("foreign end reachable");
}
