/* C05 (a3) + C13 (a): multi-arena checkpoint take / restore / fossil collection.
 * Real code: mm/buddy/multi.c (model_allocator_checkpoint_take, _restore,
 * _fossil_lp_collect, model_allocator_lp_init) with the real buddy.c/ckpt.c.
 * The per-arena traversal and copy are proved separately (c05_ckpt.c) on
 * arbitrary trees; here every arena's tree is one of four concrete shapes
 * chosen by the solver, so the subject is the matching of sub-checkpoints to
 * arenas, re-initialisation of arenas created after the checkpoint, the size
 * accounting and the log logic. */
#define VERIF_BYTE_COPIES
#define VERIF_NO_REALLOC
#include "env.h"
#include <stdlib.h>
#include <string.h>
#include <errno.h>
#include <stdio.h>
/* fixed-size chunk allocator: no symbolic-size objects (they explode); every request
 * is recorded so that the checkpoint writers can be checked against the requested size */
#define CHUNK 192
#define NCHUNK 12
static unsigned char chunks[NCHUNK][CHUNK] __attribute__((aligned(16)));
static size_t chunk_req[NCHUNK];
static unsigned chunk_free[NCHUNK], chunk_next;
static void *verif_malloc(size_t n)
{
	__CPROVER_assert(n <= CHUNK && chunk_next < NCHUNK, "harness allocator large enough for the bounds");
	__CPROVER_assume(n <= CHUNK && chunk_next < NCHUNK);
	chunk_req[chunk_next] = n;
	return chunks[chunk_next++];
}
static void verif_free(void *p)
{
	if(!p)
		return;
	unsigned k = (unsigned)(((unsigned char *)p - &chunks[0][0]) / CHUNK);
	__CPROVER_assert(k < NCHUNK && p == (void *)chunks[k], "free() of a pointer obtained from malloc()");
	__CPROVER_assert(chunk_free[k] == 0, "no double free");
	chunk_free[k]++;
}
static size_t req_size_of(const void *p)
{
	unsigned k = (unsigned)(((const unsigned char *)p - &chunks[0][0]) / CHUNK);
	return k < NCHUNK ? chunk_req[k] - (size_t)((const unsigned char *)p - chunks[k]) : 0;
}
static bool is_freed(const void *p)
{
	unsigned k = (unsigned)(((const unsigned char *)p - &chunks[0][0]) / CHUNK);
	return k < NCHUNK && chunk_free[k] != 0;
}
#define malloc verif_malloc
#define free verif_free
#include <mm/buddy/buddy.c>
#include <mm/buddy/ckpt.h>
#include <mm/buddy/multi.c>
#include "buddy_inv.h"

struct simulation_configuration global_config;
__thread struct lp_ctx *current_lp;
struct lp_ctx *lps;

#define NA 3
/* which arenas exist at the checkpoint / at the rollback: fixed per query (the driver runs every combination),
 * or solver-chosen when not given */
#ifdef ATCK
#define MASK_AT(a) (((ATCK) >> (a)) & 1)
#define MASK_NOW(a) (((NOW) >> (a)) & 1)
#ifndef SHP
#define SHP 0x39 /* arena 0: one block, arena 1: left half, arena 2: whole arena */
#endif
#define SHAPE_AT(a) (((SHP) >> (2 * (a))) & 3)
#else
#define MASK_AT(a) vin_bool()
#define MASK_NOW(a) (at_ckpt[a] || vin_bool())
#define SHAPE_AT(a) vin_upto(3)
#endif
#define BLK (1U << B_BLOCK_EXP)
#define HDR ((unsigned)offsetof(struct buddy_checkpoint, base_mem))
static struct buddy_state pool[NA]; /* one object: ascending addresses, as the sorted insertion keeps them */

/* four shapes: 0 empty, 1 first block live, 2 left half live, 3 whole arena live */
static void set_shape(struct buddy_state *b, unsigned shape)
{
	buddy_init(b);
	if(shape == 1)
		(void)buddy_malloc(b, B_BLOCK_EXP);
	else if(shape == 2)
		(void)buddy_malloc(b, B_TOTAL_EXP - 1);
	else if(shape == 3)
		(void)buddy_malloc(b, B_TOTAL_EXP);
}
static unsigned shape_bytes(unsigned shape) { return shape == 0 ? 0 : shape == 1 ? BLK : shape == 2 ? ARENA / 2 : ARENA; }

static struct lp_ctx lp;

/* Contract stubs of the per-arena functions (discharged on arbitrary trees by c05_ckpt.c:
 * take writes header + tree + live bytes = HDR + live bytes and returns the end; restore refuses
 * a checkpoint of another arena, otherwise restores tree and live bytes and returns the end).
 * The arena's shape id and first byte are kept in the checkpoint's tree area. */
static unsigned cur_shape[NA];
struct buddy_checkpoint *checkpoint_full_take(const struct buddy_state *self, struct buddy_checkpoint *ret)
{
	unsigned a = (unsigned)(self - pool);
	unsigned bytes = shape_bytes(cur_shape[a]);
	VERIF_ASSERT(req_size_of(ret) >= HDR + bytes + sizeof(struct buddy_state *), "the checkpoint buffer (full_ckpt_size) has room for this arena's checkpoint and the terminator");
	ret->orig = self;
	ret->longest[0] = (uint8_t)cur_shape[a];
	ret->longest[1] = self->base_mem[0];
	return (struct buddy_checkpoint *)((unsigned char *)ret + HDR + bytes);
}
const struct buddy_checkpoint *checkpoint_full_restore(struct buddy_state *self, const struct buddy_checkpoint *ckp)
{
	VERIF_ASSERT(req_size_of(ckp) >= sizeof(struct buddy_state *), "restore reads inside the checkpoint buffer");
	if(ckp->orig != self)
		return NULL;
	unsigned a = (unsigned)(self - pool);
	cur_shape[a] = ckp->longest[0];
	set_shape(self, cur_shape[a]);
	self->base_mem[0] = ckp->longest[1];
	return (const struct buddy_checkpoint *)((const unsigned char *)ckp + HDR + shape_bytes(cur_shape[a]));
}

void harness_restore(void)
{
	mk_expo();
	current_lp = &lp;
	lps = &lp;
	struct mm_state *self = &lp.mm_state;
	model_allocator_lp_init(self);
	VERIF_ASSERT(self->full_ckpt_size == offsetof(struct mm_checkpoint, chkps) + sizeof(struct buddy_state *), "an LP without arenas accounts for the checkpoint header and terminator only");

	VERIF_ASSERT(array_count(self->buddies) == 0 && array_count(self->logs) == 0, "a fresh LP has no arenas and no checkpoints");
	/* arenas existing at the checkpoint */
	bool at_ckpt[NA];
	unsigned shape0[NA], nold = 0;
	unsigned char w0[NA]; /* first byte of each arena at the checkpoint */
	for(unsigned a = 0; a < NA; a++) {
		at_ckpt[a] = MASK_AT(a);
		shape0[a] = SHAPE_AT(a);
		if(at_ckpt[a]) {
			set_shape(&pool[a], shape0[a]);
			cur_shape[a] = shape0[a];
			pool[a].base_mem[0] = w0[a] = vin_u8();
			array_push(self->buddies, &pool[a]);
			self->full_ckpt_size += HDR + shape_bytes(shape0[a]);
			nold++;
		}
	}
	uint_fast32_t size0 = self->full_ckpt_size;
	array_count_t ref0 = vin_upto(5);
	model_allocator_checkpoint_take(self, ref0);
	VERIF_ASSERT(array_count(self->logs) == 1 && array_get_at(self->logs, 0).ref_i == ref0, "the checkpoint is logged with its reference position");
	VERIF_ASSERT(array_get_at(self->logs, 0).c->ckpt_size == size0, "the checkpoint records the accounted size");

	/* later: arenas created after the checkpoint (any position in the address order), arbitrary changes, more checkpoints */
	array_count(self->buddies) = 0;
	unsigned nnow = 0;
	bool now[NA];
	for(unsigned a = 0; a < NA; a++) {
		now[a] = MASK_NOW(a);
		if(now[a]) {
			cur_shape[a] = vin_upto(3);
			set_shape(&pool[a], cur_shape[a]);
			pool[a].base_mem[0] = vin_u8();
			array_push(self->buddies, &pool[a]);
			nnow++;
		}
	}
	VERIF_ASSUME(nnow >= 1);
	self->full_ckpt_size = vin_u32() & 0xffff; /* whatever the later activity accounted */
	unsigned nlater = vin_upto(2);
	array_count_t refs[3];
	refs[0] = ref0;
	struct mm_checkpoint *later[2];
	for(unsigned k = 0; k < 2; k++) {
		if(k >= nlater)
			break;
		refs[k + 1] = refs[k] + 1 + vin_upto(2);
		later[k] = malloc(sizeof(struct mm_checkpoint) + 8);
		VERIF_ASSUME(later[k] != NULL);
		struct mm_log l = {.ref_i = refs[k + 1], .c = later[k]};
		array_push(self->logs, l);
	}
	array_count_t target = vin_upto(12);
	VERIF_ASSUME(target >= ref0);
	/* expected: newest checkpoint not after the target */
	unsigned exp_i = 0;
	for(unsigned k = 1; k <= 2; k++)
		if(k <= nlater && refs[k] <= target)
			exp_i = k;
	VERIF_ASSUME(exp_i == 0); /* the first checkpoint is the one restored (later ones only test the log walk) */

	array_count_t r = model_allocator_checkpoint_restore(self, target);

	VERIF_ASSERT(r == ref0, "restore returns the reference position of the newest checkpoint not after the target");
	VERIF_ASSERT(array_count(self->logs) == 1 && array_get_at(self->logs, 0).ref_i == ref0, "newer checkpoints are dropped from the log, the restored one is kept");
	unsigned nnew = 0;
	for(unsigned a = 0; a < NA; a++) {
		if(!now[a])
			continue;
		if(at_ckpt[a]) {
			VERIF_ASSERT(pool[a].longest[0] == (shape0[a] == 3 ? 0 : shape0[a] == 0 ? B_TOTAL_EXP : B_TOTAL_EXP - 1),
			    "an arena present at the checkpoint gets its own allocation tree back");
			if(shape0[a])
				VERIF_ASSERT(pool[a].base_mem[0] == w0[a], "an arena present at the checkpoint gets its live bytes back");
		} else {
			nnew++;
			VERIF_ASSERT(pool[a].longest[0] == B_TOTAL_EXP && buddy_inv(&pool[a]),
			    "an arena created after the checkpoint is re-initialised (allocations of undone events are gone)");
			cur_shape[a] = 0; /* ghost follows the re-initialisation just asserted */
		}
	}
	VERIF_ASSERT(self->full_ckpt_size == size0 + nnew * HDR, "the accounted checkpoint size is the checkpoint's plus one header per newer arena");
	for(unsigned k = 0; k < 2; k++)
		if(k < nlater)
			VERIF_ASSERT(is_freed(later[k]), "every dropped checkpoint is released");
	VERIF_ASSERT(!is_freed(array_get_at(self->logs, 0).c), "the restored checkpoint stays allocated");
	/* the accounting is exact: a checkpoint taken now fits its buffer */
	model_allocator_checkpoint_take(self, r + 1);
	VERIF_WITNESS("restore end reachable");
	if(nlater == 2)
		VERIF_WITNESS("two newer checkpoints dropped reachable");
	(void)nold;
}

/* log walk of restore + fossil collection on a symbolic log (checkpoint bodies are dummies of a
 * single empty-LP checkpoint: no arenas, so restore only walks the log) */
#ifndef NLOG
#define NLOG 4
#endif
void harness_log(void)
{
	current_lp = &lp;
	lps = &lp;
	struct mm_state *self = &lp.mm_state;
	model_allocator_lp_init(self);
	unsigned n = 1 + vin_upto(NLOG - 1);
	array_count_t refs[NLOG];
	struct mm_checkpoint *cs[NLOG];
	array_count_t prev = 0;
	for(unsigned k = 0; k < NLOG; k++) {
		if(k >= n)
			break;
		refs[k] = prev + (k ? 1 : 0) + vin_upto(3);
		prev = refs[k];
		model_allocator_checkpoint_take(self, refs[k]);
		cs[k] = array_get_at(self->logs, k).c;
	}
	array_count_t target = vin_upto(20);
	VERIF_ASSUME(target >= refs[0]);
	unsigned exp_i = 0;
	for(unsigned k = 1; k < NLOG; k++)
		if(k < n && refs[k] <= target)
			exp_i = k;
	if(vin_bool()) {
		array_count_t r = model_allocator_checkpoint_restore(self, target);
		VERIF_ASSERT(r == refs[exp_i], "restore picks the newest checkpoint whose position is not after the target");
		VERIF_ASSERT(array_count(self->logs) == exp_i + 1, "exactly the newer checkpoints are dropped");
		for(unsigned k = 0; k < NLOG; k++)
			if(k <= exp_i)
				VERIF_ASSERT(array_get_at(self->logs, k).c == cs[k] && array_get_at(self->logs, k).ref_i == refs[k], "kept log entries are untouched");
		/* the kept checkpoints are still allocated (readable), the dropped ones were released once (CBMC double-free check) */
		VERIF_ASSERT(cs[exp_i]->ckpt_size == self->full_ckpt_size, "the accounted size is the restored checkpoint's");
		VERIF_WITNESS("log restore end reachable");
	} else {
		array_count_t r = model_allocator_fossil_lp_collect(self, target);
		VERIF_ASSERT(r == refs[exp_i], "fossil collection returns the position of the newest checkpoint not after the committed frontier");
		VERIF_ASSERT(array_count(self->logs) == n - exp_i, "exactly the older checkpoints are discarded: one checkpoint not after the frontier is kept");
		for(unsigned k = 0; k < NLOG; k++)
			if(k >= exp_i && k < n) {
				VERIF_ASSERT(array_get_at(self->logs, k - exp_i).c == cs[k], "kept checkpoints keep their content");
				VERIF_ASSERT(array_get_at(self->logs, k - exp_i).ref_i == refs[k] - r, "kept reference positions are shifted by the number of discarded history entries");
			}
		VERIF_ASSERT(array_get_at(self->logs, 0).ref_i == 0, "the kept history starts exactly at the oldest kept checkpoint");
		/* a later rollback to any uncommitted position still finds a checkpoint */
		array_count_t t2 = vin_upto(20);
		array_count_t r2 = model_allocator_checkpoint_restore(self, t2);
		VERIF_ASSERT(r2 <= t2, "after fossil collection every later rollback target finds a checkpoint not after it");
		VERIF_WITNESS("log fossil end reachable");
		if(exp_i >= 2)
			VERIF_WITNESS("two checkpoints discarded reachable");
	}
	model_allocator_lp_fini(self); /* every remaining checkpoint and arena released exactly once */
}
