/* C20 (a,c): the statistics file is well formed and reports what was counted.
 * Real code: log/stats.c (whole unit: stats_global_init, stats_init,
 * stats_take, stats_on_gvt, stats_global_fini, stats_file_final_write) and
 * log/file.c.  Environment: an in-memory model of FILE (tmpfile, fopen,
 * fwrite, fread, fseek, ftell, fclose, setvbuf over byte arrays), memory /
 * timer statistics arbitrary, one worker thread, single rank. */
#define VERIF_NO_MAIN
#define VERIF_REAL_STATS
#define VERIF_BYTE_COPIES
#include "env.h"
#include <stdio.h>
#include <string.h>
#include <stdarg.h>
#include <sys/time.h>

/* ---- in-memory files ---- */
#define FCAP 1024
#ifndef NT
#define NT 1
#endif
#define NFILES (NT + 2)
struct memfile {
	unsigned char data[FCAP];
	long size, pos;
	int open, closes;
};
static struct memfile mf[NFILES];
static unsigned nopen;
static unsigned io_errors;
static struct memfile *MF(FILE *f) { return (struct memfile *)(void *)f; }
FILE *io_file_tmp_get(void)
{
	struct memfile *m = &mf[nopen++];
	m->open = 1;
	return (FILE *)(void *)m;
}
FILE *fopen(const char *name, const char *mode)
{
	(void)name;
	(void)mode;
	return io_file_tmp_get();
}
int vsnprintf(char *s, size_t n, const char *fmt, va_list ap)
{
	(void)fmt;
	(void)ap;
	if(s && n)
		s[0] = 0;
	return 8;
}
size_t fwrite(const void *p, size_t sz, size_t n, FILE *f)
{
	struct memfile *m = MF(f);
	size_t tot = sz * n;
	if(!m->open || m->pos + (long)tot > FCAP) {
		io_errors++;
		return 0;
	}
	for(size_t i = 0; i < tot; i++)
		m->data[m->pos + (long)i] = ((const unsigned char *)p)[i];
	m->pos += (long)tot;
	if(m->pos > m->size)
		m->size = m->pos;
	return n;
}
size_t fread(void *p, size_t sz, size_t n, FILE *f)
{
	struct memfile *m = MF(f);
	size_t tot = sz * n;
	if(!m->open || m->pos + (long)tot > m->size || tot == 0)
		return 0;
	for(size_t i = 0; i < tot; i++)
		((unsigned char *)p)[i] = m->data[m->pos + (long)i];
	m->pos += (long)tot;
	return n;
}
int fseek(FILE *f, long off, int whence)
{
	struct memfile *m = MF(f);
	m->pos = whence == SEEK_END ? m->size + off : off;
	return 0;
}
long ftell(FILE *f) { return MF(f)->pos; }
int fclose(FILE *f)
{
	MF(f)->open = 0;
	MF(f)->closes++;
	return 0;
}
int setvbuf(FILE *f, char *b, int mode, size_t sz)
{
	(void)f; (void)b; (void)mode; (void)sz;
	return 0;
}
/* concrete string length (CBMC's strnlen model returns a symbolic length, which makes every later file offset symbolic) */
size_t strnlen(const char *s, size_t n)
{
	size_t i = 0;
	while(i < n && s[i])
		i++;
	return i;
}
size_t strlen(const char *s)
{
	size_t i = 0;
	while(s[i])
		i++;
	return i;
}
int gettimeofday(struct timeval *tv, void *tz)
{
	(void)tz;
	tv->tv_sec = vin_u32() & 0xffff;
	tv->tv_usec = 0;
	return 0;
}
int mem_stat_setup(void) { return 0; }
size_t mem_stat_rss_current_get(void) { return vin_u32(); }
size_t mem_stat_rss_max_get(void) { return vin_u32(); }

#include <log/stats.c>
#include <log/file.c>
void mpi_blocking_data_send(const void *d, int s, nid_t n) { (void)d; (void)s; (void)n; }
void *mpi_blocking_data_rcv(int *s, nid_t n) { (void)s; (void)n; return NULL; }

struct simulation_configuration global_config;
__thread rid_t rid;
nid_t n_nodes = 1, nid;
lp_id_t n_lps_node = 3;

#ifndef G
#define G 2
#endif
static uint64_t rd64(const unsigned char *p)
{
	uint64_t v = 0;
	for(int i = 7; i >= 0; i--)
		v = (v << 8) | p[i];
	return v;
}

void harness(void)
{
	static char fname[] = "x";
	global_config.stats_file = fname;
	global_config.n_threads = NT;
	global_config.log_level = LOG_SILENT;
	rid = 0;
	stats_global_init();
	for(unsigned t = 0; t < NT; t++) { /* worker threads, sequentialised (each owns its temporary file) */
		rid = t;
		stats_init();
	}
	unsigned rounds = G; /* constant per query: file offsets stay concrete (the driver runs 0, 1, 2, 3 rounds) */
	uint64_t exp[G + 1][NT][STATS_COUNT];
	double gv[G + 1];
	double last = 0.0;
	for(unsigned r = 0; r < G; r++) {
		if(r >= rounds)
			break;
		gv[r] = last + (double)(vin_u32() & 7);
		last = gv[r];
		for(unsigned t = 0; t < NT; t++) {
			rid = t;
			for(unsigned s = 0; s < STATS_COUNT; s++)
				exp[r][t][s] = 0;
			for(unsigned k = 0; k < 3; k++) { /* arbitrary counting traffic */
				unsigned s = vin_upto(STATS_COUNT - 2);
				uint64_t c = vin_u32() & 0xffff;
				stats_take(s, c);
				exp[r][t][s] += c;
				__CPROVER_assert(stats_retrieve(s) == exp[r][t][s], "stats_retrieve returns what was counted since the last record");
			}
			stats_on_gvt(gv[r]); /* every thread is told every GVT */
			__CPROVER_assert(stats_retrieve(STATS_ROLLBACK) == 0 && stats_retrieve(STATS_MSG_PROCESSED) == 0, "counters restart from zero after every record");
		}
	}
	rid = 0;
	stats_global_fini();
	__CPROVER_assert(io_errors == 0, "no write goes wrong in the model");
	/* the final file is the last one opened */
	struct memfile *o = &mf[nopen - 1];
	__CPROVER_assert(nopen == NT + 2 && mf[0].closes == 1 && mf[1].closes == 1 && o->closes == 1, "the temporary files and the output file are each closed once");
	const unsigned char *d = o->data;
	long p = 0;
	__CPROVER_assert(d[0] == 0x0f && d[1] == 0xf0, "file starts with the endianness magic 61455");
	p = 2;
	__CPROVER_assert(rd64(d + p) == STATS_COUNT, "metric count");
	p += 8;
	for(unsigned s = 0; s < STATS_COUNT; s++) {
		unsigned l = d[p];
		__CPROVER_assert(l == strlen(stats_names[s]) && l > 0, "each metric name is a Pascal string of the documented name");
		__CPROVER_assert(d[p + 1] == (unsigned char)stats_names[s][0], "metric name content");
		p += 1 + l;
	}
	__CPROVER_assert(rd64(d + p) == 1, "node count");
	p += 8;
	__CPROVER_assert(rd64(d + p) == NT && rd64(d + p + 8) == n_lps_node, "global header: thread and LP counts");
	p += sizeof(struct stats_global);
	uint64_t nsz = rd64(d + p);
	p += 8;
	__CPROVER_assert(nsz == rounds * sizeof(struct stats_node), "the node section holds exactly one record per GVT round");
	for(unsigned r = 0; r < G; r++)
		if(r < rounds) {
			double g;
			memcpy(&g, d + p + r * 16, 8);
			__CPROVER_assert(g == gv[r], "node records list the reported GVT values in order (non-decreasing as reported)");
		}
	p += (long)nsz;
	unsigned wr = G ? vin_upto(G ? G - 1 : 0) : 0, ws = vin_upto(STATS_COUNT - 2);
	for(unsigned t = 0; t < NT; t++) {
		uint64_t tsz = rd64(d + p);
		p += 8;
		__CPROVER_assert(tsz == rounds * sizeof(struct stats_thread), "every thread section holds the same number of records as the node section");
		if(wr < rounds)
			__CPROVER_assert(rd64(d + p + wr * sizeof(struct stats_thread) + ws * 8) == exp[wr][t][ws], "each thread record reports exactly what that thread counted since its previous record");
		p += (long)tsz;
	}
	__CPROVER_assert(p == o->size, "nothing follows the last record");
	__CPROVER_assert(0, "WITNESS end reachable");

}
