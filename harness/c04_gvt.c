/* C04 (a): the thread-level GVT reduction is a safe lower bound.
 * Real code: gvt/gvt.c (gvt_start_processing, gvt_on_msg_extraction,
 * gvt_thread_phase_run with its counters c_a, c_b and reducing_p[]).
 * Threads are sequentialised at call granularity: the harness owns the
 * thread-local variables (rid, thread_phase, gvt_accumulator) of NT simulated
 * threads and a solver-chosen schedule of K steps says who moves.  The
 * per-thread message queue is a harness model (pending timestamps; peek =
 * minimum) - that the real queue meets this contract is C15.  Timestamps
 * range over a finite ordered domain (the reduction only compares them). */
#define VERIF_NO_MAIN
#include "env.h"
#include <sys/time.h>
#include <gvt/gvt.c>
#include <distributed/no_mpi.c>
#include <distributed/control_msg.c>

struct simulation_configuration global_config;
__thread rid_t rid;
nid_t n_nodes = 1, nid;
void termination_on_ctrl_msg(void) {}
bool sync_thread_barrier(void) { return true; }
#ifdef VERIF_CBMC
int gettimeofday(struct timeval *tv, void *tz)
{
	(void)tz;
	tv->tv_sec = 0;
	tv->tv_usec = 0;
	return 0;
}
#endif

#ifndef NT
#define NT 2
#endif
#ifndef K
#define K 11
#endif
#define CAP 3
static const double TS[8] = {1.0, 2.0, 3.0, 4.0, 5.0, 6.0, 7.0, 8.0};
static double any_ts(void) { return TS[vin_u32() % 8]; }

static double pend[NT][CAP];
static bool done_flag[NT], started[NT];
static struct {
	enum thread_phase ph;
	simtime_t acc;
} ctx[NT];
static void load(unsigned t)
{
	rid = t;
	thread_phase = ctx[t].ph;
	gvt_accumulator = ctx[t].acc;
}
static void save(unsigned t)
{
	ctx[t].ph = thread_phase;
	ctx[t].acc = gvt_accumulator;
}
simtime_t msg_queue_time_peek(void)
{
	double m = SIMTIME_MAX;
	for(int i = 0; i < CAP; i++)
		if(pend[rid][i] >= 0.0 && pend[rid][i] < m)
			m = pend[rid][i];
	return m;
}
static double final_g(void)
{
	double g = SIMTIME_MAX;
	for(int k = 0; k < NT; k++)
		if(reducing_p[k] < g)
			g = reducing_p[k];
	return g;
}
static bool all_done(void)
{
	bool a = true;
	for(int k = 0; k < NT; k++)
		a = a && done_flag[k];
	return a;
}

void harness(void)
{
	global_config.n_threads = NT;
	for(int t = 0; t < NT; t++)
		for(int i = 0; i < CAP; i++)
			pend[t][i] = vin_bool() ? any_ts() : -1.0;
	for(unsigned t = 0; t < NT; t++) {
		ctx[t].ph = thread_phase_idle;
		ctx[t].acc = SIMTIME_MAX;
	}
	for(unsigned step = 0; step < K; step++) {
		unsigned t = vin_u32() % NT;
		load(t);
		if(vin_bool()) { /* process one message: extract the minimum, maybe send one not before it */
			double ts = -1.0;
			int slot = -1;
			for(int i = 0; i < CAP; i++)
				if(pend[t][i] >= 0.0 && (slot < 0 || pend[t][i] < ts)) {
					ts = pend[t][i];
					slot = i;
				}
			if(slot >= 0) {
				pend[t][slot] = -1.0;
				gvt_on_msg_extraction(ts);
				if(all_done())
					__CPROVER_assert(ts >= final_g(), "after the reduction completed no thread extracts a message below the reported GVT");
				if(vin_bool()) {
					unsigned d = vin_u32() % NT, sl = vin_u32() % CAP;
					double nt = any_ts();
					__CPROVER_assume(nt >= ts && pend[d][sl] < 0.0);
					pend[d][sl] = nt;
				}
			}
		} else if(!started[t]) { /* round entry as in gvt_phase_run(): the initiator any time, the others once c_b != 0 */
			if(t == 0 || atomic_load_explicit(&c_b, memory_order_relaxed)) {
				gvt_start_processing();
				started[t] = true;
			}
		} else if(!done_flag[t]) {
			if(gvt_thread_phase_run()) {
				done_flag[t] = true;
				__CPROVER_assert(thread_phase == thread_phase_idle, "a thread that completed the reduction is idle again");
			}
		}
		save(t);
	}
	if(all_done()) {
		double g = final_g();
		for(int t = 0; t < NT; t++)
			for(int i = 0; i < CAP; i++)
				if(pend[t][i] >= 0.0)
					__CPROVER_assert(pend[t][i] >= g, "no message pending in any queue is below the reported GVT");
		__CPROVER_assert(atomic_load_explicit(&c_a, memory_order_relaxed) == 0 && atomic_load_explicit(&c_b, memory_order_relaxed) == 0, "the reduction counters are back to zero: the next round starts clean");
		__CPROVER_assert(0, "WITNESS the reduction can complete for every thread");
	}
	__CPROVER_assert(0, "WITNESS end reachable");
}
