/* C09 (a) through the real caller: the generator state an LP starts with does
 * not depend on which rank / thread hosts it.  Real code: lp/lp.c:lp_init
 * (computes the thread's range, allocates and seeds each LP's generator),
 * lib/random/random.c:random_lib_lp_init, lib/random/xxtea.c.  The same LP id
 * is initialised under two arbitrary different hostings (first LP of the rank,
 * LPs per rank, thread count, thread id) and the two states are compared. */
#define VERIF_NO_MAIN
#include "env.h"
#include <lp/lp.c>
#include <core/core.c>
#include <lib/random/random.c>
#include <lib/random/xxtea.c>

struct simulation_configuration global_config;
#ifndef MAXLP
#define MAXLP 3
#endif
static struct lp_ctx store[2 * MAXLP + 2];
static struct rng_ctx rngs[2 * MAXLP + 2];
void model_allocator_lp_init(struct mm_state *s) { (void)s; }
void model_allocator_lp_fini(struct mm_state *s) { (void)s; }
void *rs_malloc(size_t n)
{
	(void)n;
	return &rngs[current_lp - store];
}
void auto_ckpt_lp_init(struct auto_ckpt *a) { (void)a; }
void process_lp_init(struct lp_ctx *lp) { (void)lp; }
void process_lp_fini(struct lp_ctx *lp) { (void)lp; }
void termination_lp_init(struct lp_ctx *lp) { (void)lp; }

/* layouts are constants per query (symbolic ranges: no verdict): hosting A = (FA, CA, TA), hosting B = (FB, CB, TB) */
#ifndef W
#define W 2
#define FA 2
#define CA 1
#define TA 1
#define FB 0
#define CB 3
#define TB 2
#endif
static void host(unsigned w, unsigned first, unsigned cnt, unsigned T)
{
	__CPROVER_assume(w >= first && w < first + cnt);
	nid = (nid_t)vin_upto(3);
	n_nodes = 4;
	lid_node_first = first;
	n_lps_node = cnt;
	global_config.n_threads = cnt < T ? cnt : T;
	global_config.lps = 2 * MAXLP + 2;
	global_config.ckpt_interval = vin_u32();
	global_config.gvt_period = vin_u32();
	lps = store; /* indexed by global LP id */
	rid = lid_to_rid((lp_id_t)w); /* the thread that hosts w in this layout */
	lp_init();
	__CPROVER_assert(w >= lid_thread_first && w < lid_thread_end, "the LP is initialised by the thread routing names");
}

void harness(void)
{
	unsigned w = W;
	global_config.prng_seed = vin_u64();
	host(w, FA, CA, TA);
	struct rng_ctx a = rngs[w];
	__CPROVER_assert(store[w].rng_ctx == &rngs[w], "the generator context is the memory the LP allocated for it");
	for(unsigned i = 0; i < 2 * MAXLP + 2; i++)
		for(int k = 0; k < 4; k++)
			rngs[i].state[k] = vin_u64(); /* whatever was there */
	host(w, FB, CB, TB);
	struct rng_ctx b = rngs[w];
	__CPROVER_assert(a.state[0] == b.state[0] && a.state[1] == b.state[1] && a.state[2] == b.state[2] && a.state[3] == b.state[3],
	    "an LP's initial generator state is the same whichever rank and thread hosts it (function of seed and LP id only)");
	/* and different LPs get different streams: the id enters the seeding */
	__CPROVER_assert(0, "WITNESS hosting end reachable");
}
