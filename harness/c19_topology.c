/* C19: topology queries are mutually consistent and the random choice is a
 * function of the caller's generator only.  Real code: lib/topology/topology.c
 * (whole unit), one geometry per query (-DGEOM).  Random()/RandomRange() are
 * contract stubs (C18 discharges the range contract): a deterministic function
 * of the calling LP's generator state (a solver-chosen table indexed by the
 * generator's position), with RandomRange(min,max) for min > max returning min
 * as the real arithmetic does. */
#include "env.h"
#include <stdlib.h>
#include <lib/topology/topology.c>
#include <lp/lp.h>

struct simulation_configuration global_config;
__thread struct lp_ctx *current_lp;
__thread rid_t rid;
nid_t n_nodes = 1, nid;
uint64_t lid_node_first;
lp_id_t n_lps_node;

#define NDRAW 8
static unsigned draw_tab[NDRAW];
static unsigned next_draw(void)
{
	struct rng_ctx *c = current_lp->rng_ctx;
	unsigned d = draw_tab[c->state[0] % NDRAW];
	c->state[0]++;
	return d;
}
double Random(void) { return (double)(next_draw() % 1024u) / 1024.0; } /* in [0,1) */
int RandomRange(int mn, int mx)
{
	unsigned d = next_draw();
	if(mx < mn)
		return mn; /* what floor(Random() * (max - min + 1)) + min gives for an empty range of width 0 */
	return mn + (int)(d % (unsigned)(mx - mn + 1));
}

#ifndef B
#define B 5
#endif
#ifndef GEOM
#define GEOM 2
#endif
_Static_assert(TOPOLOGY_HEXAGON == 1 && TOPOLOGY_TORUS == 3 && TOPOLOGY_GRAPH == 8, "geometry numbering used in #if");
#define IS_GRID (GEOM == TOPOLOGY_HEXAGON || GEOM == TOPOLOGY_SQUARE || GEOM == TOPOLOGY_TORUS)

static struct lp_ctx lpA;
static struct rng_ctx rA;
static void mk_rng(void)
{
	for(unsigned i = 0; i < NDRAW; i++) {
		draw_tab[i] = vin_u32();
	}
	rA.state[0] = vin_upto(NDRAW - 1);
	lpA.rng_ctx = &rA;
	current_lp = &lpA;
}

/* the topology is built directly (geometry a compile-time constant keeps the dispatch concrete);
 * the real initialiser is checked by harness_init */
static struct topology topo;
#if GEOM == 8 /* TOPOLOGY_GRAPH */
static struct list adj_store[B];
static list(struct graph_node) adj_ptr[B];
#endif
static struct topology *mk_topology(unsigned w, unsigned h)
{
	topo.geometry = GEOM;
	topo.adjacency = NULL;
	if(IS_GRID) {
		topo.width = w;
		topo.height = h;
		topo.regions = (lp_id_t)w * h;
	} else {
		topo.width = topo.height = 0;
		topo.regions = w;
	}
#if GEOM == 8 /* TOPOLOGY_GRAPH */
	for(unsigned i = 0; i < B; i++) {
		adj_store[i].size = 0;
		adj_store[i].head = adj_store[i].tail = NULL;
		adj_ptr[i] = (void *)&adj_store[i];
	}
	topo.adjacency = adj_ptr;
#endif
	return &topo;
}

void harness_init(void)
{
	unsigned w = vin_u32(), h = vin_u32();
	VERIF_ASSUME(w >= 1 && w <= B && h >= 1 && h <= B);
	struct topology *t;
	if(IS_GRID)
		t = InitializeTopology(GEOM, h, w); /* height first, as the va_arg order */
	else
		t = InitializeTopology(GEOM, w);
	VERIF_ASSERT(t != NULL, "a topology with at least one region can be created");
	VERIF_ASSERT(t->geometry == GEOM && CountRegions(t) == (IS_GRID ? (lp_id_t)w * h : (lp_id_t)w), "CountRegions is width*height / the region count");
	if(IS_GRID)
		VERIF_ASSERT(t->width == w && t->height == h, "width and height are recorded");
	VERIF_ASSERT(InitializeTopology(GEOM, 0, 0) == NULL || !IS_GRID, "a grid with no regions is refused");
	ReleaseTopology(t);
	VERIF_WITNESS("init end reachable");
}

#if GEOM == 8 /* TOPOLOGY_GRAPH */
#define NLINK 3
#endif

void harness_consistency(void)
{
	mk_rng();
	unsigned w = vin_u32(), h = vin_u32();
	VERIF_ASSUME(w >= 1 && w <= B && h >= 1 && h <= B);
	struct topology *t = mk_topology(w, h);
	lp_id_t regions = CountRegions(t);
	lp_id_t from = vin_u32();
	VERIF_ASSUME(from < regions);
	unsigned nlinks = 0;
#if GEOM == 8 /* TOPOLOGY_GRAPH */
	bool linked[B];
	for(unsigned i = 0; i < B; i++)
		linked[i] = false;
	for(unsigned k = 0; k < NLINK; k++)
		if(vin_bool()) {
			lp_id_t f2 = vin_u32(), to = vin_u32();
			VERIF_ASSUME(f2 < regions && to < regions);
			double pr = vin_double();
			VERIF_ASSUME(pr >= 0.0 && pr <= 1.0);
			VERIF_ASSERT(AddTopologyLink(t, f2, to, pr), "a link with a probability in [0,1] is accepted");
			if(f2 == from && !linked[to]) {
				linked[to] = true;
				nlinks++;
			}
		}
#endif
	unsigned valid = 0;
	if(IS_GRID || GEOM == TOPOLOGY_RING || GEOM == TOPOLOGY_BIDRING)
		for(unsigned d = 0; d < DIRECTION_RANDOM; d++) {
			lp_id_t r = GetReceiver(from, t, d);
			if(r != INVALID_DIRECTION) {
				valid++;
				VERIF_ASSERT(r < regions, "GetReceiver returns a region inside the topology");
				VERIF_ASSERT(IsNeighbor(from, r, t), "IsNeighbor confirms every receiver");
			}
		}
	lp_id_t cd = CountDirections(from, t);
	if(IS_GRID || GEOM == TOPOLOGY_RING || GEOM == TOPOLOGY_BIDRING)
		VERIF_ASSERT(cd == valid, "CountDirections equals the number of fixed directions with a valid receiver");
	else if(GEOM == TOPOLOGY_FCMESH)
		VERIF_ASSERT(cd == regions - 1, "CountDirections of a full mesh is the number of other regions");
	else if(GEOM == TOPOLOGY_STAR)
		VERIF_ASSERT(cd == (from == 0 ? regions - 1 : 1), "CountDirections of a star: other regions for the centre, one for a leaf");
	else
		VERIF_ASSERT(cd == nlinks, "CountDirections of a graph is the number of links added from the region");
	/* random direction */
	bool exists = (IS_GRID || GEOM == TOPOLOGY_RING || GEOM == TOPOLOGY_BIDRING) ? valid > 0 : (GEOM == TOPOLOGY_GRAPH ? nlinks > 0 : regions > 1);
	if(!IS_GRID) { /* the random choice of grids is checked in harness_purity */
		lp_id_t r = GetReceiver(from, t, DIRECTION_RANDOM);
		if(r != INVALID_DIRECTION) {
			VERIF_ASSERT(r < regions, "the random receiver lies inside the topology");
			VERIF_ASSERT(IsNeighbor(from, r, t), "IsNeighbor confirms the random receiver");
		}
		if(exists)
			VERIF_ASSERT(r != INVALID_DIRECTION, "DIRECTION_RANDOM returns a neighbour whenever one exists");
	}
	VERIF_ASSERT(GetReceiver(regions, t, DIRECTION_E) == INVALID_DIRECTION, "a source outside the topology has no receiver");
	VERIF_WITNESS("consistency end reachable");
	if(regions > 1 && from == regions - 1)
		VERIF_WITNESS("last region as source reachable");
}

#if GEOM >= 1 && GEOM <= 3 /* HEXAGON, SQUARE, TORUS */
/* Other LPs / threads / executions later undone run real random queries in between (with their own
 * generators): whatever they leave behind must not influence the caller's result */
static struct lp_ctx lpB;
static struct rng_ctx rB;
static void other_lp_activity(struct topology *t)
{
	struct lp_ctx *me = current_lp;
	rB.state[0] = vin_upto(NDRAW - 1);
	lpB.rng_ctx = &rB;
	current_lp = &lpB;
	lp_id_t from2 = vin_u32();
	VERIF_ASSUME(from2 < CountRegions(t));
	(void)GetReceiver(from2, t, DIRECTION_RANDOM);
	current_lp = me;
}
void harness_purity(void)
{
	mk_rng();
	unsigned w = vin_u32(), h = vin_u32();
	VERIF_ASSUME(w >= 1 && w <= B && h >= 1 && h <= B && w * h > 1);
	struct topology *t = mk_topology(w, h);
	lp_id_t from = vin_u32();
	VERIF_ASSUME(from < CountRegions(t));
	struct rng_ctx r0 = rA;
	if(vin_bool())
		other_lp_activity(t); /* history before the call */
	lp_id_t first = GetReceiver(from, t, DIRECTION_RANDOM);
	struct rng_ctx r1 = rA;
	other_lp_activity(t); /* other LPs / threads / undone executions in between */
	rA = r0;	      /* rollback restores the caller's generator */
	lp_id_t second = GetReceiver(from, t, DIRECTION_RANDOM);
	VERIF_ASSERT(first != INVALID_DIRECTION && first < CountRegions(t), "DIRECTION_RANDOM returns a region inside the topology whenever a neighbour exists");
	VERIF_ASSERT(IsNeighbor(from, first, t), "IsNeighbor confirms the random receiver");
	VERIF_ASSERT(first == second, "the random receiver is a function of the calling LP's generator state only (repeats after rollback, unaffected by other LPs/threads)");
	VERIF_ASSERT(rA.state[0] == r1.state[0], "and the generator advances identically");
	VERIF_WITNESS("purity end reachable");
}
#endif
