/* C10 (ii): the real serial_simulation_run() (serial/serial.c, with the real
 * heap.h, msg.h order and msg_allocator.c) drains an arbitrary initial event
 * list and delivers exactly the sequence of an independent textbook event-list
 * executor written from the property statement.  The model logs every event
 * and schedules, at its k-th dispatched event, the k-th entry of a
 * solver-chosen table (any destination, delay 0 or 1, type, 0..1 payload
 * bytes) for the first NSCHED events. */
#define VERIF_NO_REALLOC
#include "env.h"
#include <stdlib.h>
#include <sys/time.h>
#include <serial/serial.c>
#include <mm/msg_allocator.c>

struct simulation_configuration global_config;
__thread rid_t rid;
nid_t n_nodes = 1, nid;
uint64_t lid_node_first;
lp_id_t n_lps_node;
__thread struct lp_ctx *current_lp;
struct lp_ctx *lps;
#ifdef VERIF_CBMC
int gettimeofday(struct timeval *tv, void *tz)
{
	(void)tz;
	tv->tv_sec = vin_u32() & 0xff;
	tv->tv_usec = 0;
	return 0;
}
#endif
void *rs_malloc(size_t n) { (void)n; return NULL; }
void random_lib_lp_init(lp_id_t id, struct rng_ctx *c) { (void)id; (void)c; }
void model_allocator_lp_init(struct mm_state *s) { (void)s; }
void model_allocator_lp_fini(struct mm_state *s) { (void)s; }

#ifndef N0
#define N0 3
#endif
#ifndef NSCHED
#define NSCHED 2
#endif
#define NLP 2
#define MAXEV (N0 + NSCHED)

struct ev {
	lp_id_t lp;
	double t;
	unsigned type, size;
	unsigned char pl;
};
static struct ev tab[NSCHED]; /* what the k-th dispatched event schedules (delay added to now) */
static struct ev log_rt[MAXEV + 1];
static unsigned n_rt;
static void (*sched)(const struct ev *e);
static unsigned ordinal;

static bool ref_before(const struct ev *a, const struct ev *b)
{
	if(a->t != b->t)
		return a->t < b->t;
	if(a->type != b->type)
		return a->type > b->type;
	if(a->size != b->size)
		return a->size < b->size;
	return a->size && a->pl > b->pl;
}


static void send_rt(const struct ev *e) { ScheduleNewEvent_serial(e->lp, e->t, e->type, &e->pl, e->size); }
static void model(lp_id_t me, simtime_t now, unsigned type, const void *c, unsigned size, void *st)
{
	(void)st;
	if(n_rt < MAXEV + 1) {
		log_rt[n_rt].lp = me;
		log_rt[n_rt].t = now;
		log_rt[n_rt].type = type;
		log_rt[n_rt].size = size;
		log_rt[n_rt].pl = size ? *(const unsigned char *)c : 0;
	}
	n_rt++;
	if(ordinal < NSCHED) {
		struct ev e = tab[ordinal];
		e.t = now + e.t; /* delay 0 or 1 */
		/* API contract (checked by the runtime in debug builds): an event is never scheduled in the past,
		 * i.e. before the event being processed in the full event order */
		struct ev cur = {.lp = me, .t = now, .type = type, .size = size, .pl = size ? *(const unsigned char *)c : 0};
		VERIF_ASSUME(!ref_before(&e, &cur));
		sched(&e);
	}
	ordinal++;
}
static bool canend(lp_id_t me, const void *st)
{
	(void)me; (void)st;
	return false;
}

/* textbook executor: unsorted list, linear minimum under the documented order:
 * timestamp, then larger type first, smaller size first, larger payload first */
static struct ev pend[MAXEV + 1];
static unsigned npend;
static struct ev log_ref[MAXEV + 1];
static unsigned n_ref;
static void send_ref(const struct ev *e)
{
	if(npend < MAXEV + 1)
		pend[npend] = *e;
	npend++;
}
static struct lp_ctx L[NLP];
void harness(void)
{
	global_config.lps = NLP;
	global_config.serial = true;
	global_config.dispatcher = model;
	global_config.committed = canend;
	global_config.termination_time = SIMTIME_MAX;
	global_config.gvt_period = vin_u32() & 0xff;
	global_config.log_level = LOG_SILENT;
	lps = L;
	n_lps_node = NLP;
	for(unsigned i = 0; i < NLP; i++)
		L[i].termination_t = -1;
	msg_allocator_init();
	heap_init(queue);
	struct ev init[N0];
	unsigned n0 = 1 + vin_upto(N0 - 1);
	for(unsigned k = 0; k < N0; k++) {
		init[k].lp = vin_upto(NLP - 1);
		init[k].t = (double)vin_upto(2);
		init[k].type = vin_upto(1);
		init[k].size = vin_upto(1);
		init[k].pl = init[k].size ? (vin_u8() & 1) : 0;
	}
	for(unsigned k = 0; k < NSCHED; k++) {
		tab[k].lp = vin_upto(NLP - 1);
		tab[k].t = (double)vin_upto(1);
		tab[k].type = vin_upto(1);
		tab[k].size = vin_upto(1);
		tab[k].pl = tab[k].size ? (vin_u8() & 1) : 0;
	}
	/* the runtime */
	sched = send_rt;
	for(unsigned k = 0; k < N0; k++)
		if(k < n0)
			send_rt(&init[k]);
	ordinal = 0;
	serial_simulation_run();
	VERIF_ASSERT(heap_is_empty(queue), "the run ends when no event is left (no predicate holds, no termination time)");
	/* the reference */
	sched = send_ref;
	for(unsigned k = 0; k < N0; k++)
		if(k < n0)
			send_ref(&init[k]);
	ordinal = 0;
	for(unsigned it = 0; it < MAXEV; it++) {
		if(npend == 0 || npend > MAXEV)
			break;
		unsigned m = 0;
		for(unsigned j = 1; j < MAXEV; j++)
			if(j < npend && ref_before(&pend[j], &pend[m]))
				m = j;
		struct ev e = pend[m];
		pend[m] = pend[npend - 1];
		npend--;
		if(n_ref < MAXEV + 1)
			log_ref[n_ref] = e;
		n_ref++;
		if(ordinal < NSCHED) {
			struct ev s = tab[ordinal];
			s.t = e.t + s.t;
			VERIF_ASSUME(!ref_before(&s, &e));
			send_ref(&s);
		}
		ordinal++;
	}
	VERIF_ASSERT(n_rt == n_ref && n_rt <= MAXEV, "every scheduled event is delivered exactly once (same number of deliveries as the reference)");
	for(unsigned k = 0; k < MAXEV; k++)
		if(k < n_rt && k < n_ref) {
			VERIF_ASSERT(log_rt[k].t == log_ref[k].t && log_rt[k].type == log_ref[k].type && log_rt[k].size == log_ref[k].size && log_rt[k].pl == log_ref[k].pl,
			    "the k-th delivered event has the content the reference delivers k-th (timestamp order, content tie-break)");
			if(k)
				VERIF_ASSERT(log_rt[k - 1].t <= log_rt[k].t, "timestamps are delivered in non-decreasing order");
		}
	/* per LP the delivered sequence is the reference's (events identical in content may go to different LPs in either order) */
	for(unsigned lp = 0; lp < NLP; lp++) {
		unsigned a = 0, b = 0;
		for(unsigned k = 0; k < MAXEV; k++) {
			if(k < n_rt && log_rt[k].lp == lp)
				a++;
			if(k < n_ref && log_ref[k].lp == lp)
				b++;
		}
		VERIF_ASSERT(a == b, "each LP receives as many events as in the reference execution");
	}
	VERIF_WITNESS("serial end reachable");
	if(n_rt == MAXEV)
		VERIF_WITNESS("serial run with every scheduled event delivered reachable");
}
