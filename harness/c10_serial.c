/* C10 (ii): the real serial_simulation_run() (serial/serial.c, with the real
 * heap.h, msg.h order and msg_allocator.c) drains an arbitrary initial event
 * list and delivers exactly the sequence of an independent textbook event-list
 * executor written from the property statement.  The model logs every event
 * and schedules, at its k-th dispatched event, the k-th entry of a
 * solver-chosen table (any destination, delay 0 or 1, type, 0..1 payload
 * bytes) for the first NSCHED events. */
#define VERIF_NO_REALLOC
#include "env.h"
#include <stdlib.h>
#include <sys/time.h>
static bool heap_is_empty_after;
#define stats_dump verif_stats_dump_hook
#include <serial/serial.c>
#undef stats_dump
#include <mm/msg_allocator.c>
void verif_stats_dump_hook(void) { heap_is_empty_after = heap_is_empty(queue); } /* called by serial_simulation_run() right after the loop */

struct simulation_configuration global_config;
__thread rid_t rid;
nid_t n_nodes = 1, nid;
uint64_t lid_node_first;
lp_id_t n_lps_node;
__thread struct lp_ctx *current_lp;
struct lp_ctx *lps;
#ifdef VERIF_CBMC
int gettimeofday(struct timeval *tv, void *tz)
{
	(void)tz;
	tv->tv_sec = vin_u32() & 0xff;
	tv->tv_usec = 0;
	return 0;
}
#endif
void *verif_rs_malloc_full(void);
void *rs_malloc(size_t n) { (void)n; return verif_rs_malloc_full(); }
static unsigned seeded_cnt[2];
void random_lib_lp_init(lp_id_t id, struct rng_ctx *c) { (void)c; if(id < 2) seeded_cnt[id]++; }
void model_allocator_lp_init(struct mm_state *s) { (void)s; }
void model_allocator_lp_fini(struct mm_state *s) { (void)s; }

#ifndef N0
#define N0 3
#endif
#ifndef NSCHED
#define NSCHED 2
#endif
#define NLP_PRED 2
#define NLP 2
#define MAXEV (N0 + NSCHED)

struct ev {
	lp_id_t lp;
	double t;
	unsigned type, size;
	unsigned char pl;
};
static struct ev tab[NSCHED]; /* what the k-th dispatched event schedules (delay added to now) */
static struct ev log_rt[MAXEV + 1];
static unsigned n_rt;
static void (*sched)(const struct ev *e);
static unsigned ordinal;

/* the reference's order: timestamps first (written here), ties by the runtime's own content-based tie-break
 * (the property asks for the SAME tie-break as the parallel runtime, not for a particular direction; that the
 * tie-break is a content-only strict weak order is C16) */
static bool ref_before(const struct ev *a, const struct ev *b)
{
	if(a->t != b->t)
		return a->t < b->t;
	struct lp_msg ma, mb;
	ma.raw_flags = mb.raw_flags = 0;
	ma.m_type = a->type;
	mb.m_type = b->type;
	ma.pl_size = a->size;
	mb.pl_size = b->size;
	ma.pl[0] = a->pl;
	mb.pl[0] = b->pl;
	return msg_is_before_extended(&ma, &mb);
}

static void send_rt(const struct ev *e) { ScheduleNewEvent_serial(e->lp, e->t, e->type, &e->pl, e->size); }
static void model(lp_id_t me, simtime_t now, unsigned type, const void *c, unsigned size, void *st)
{
	(void)st;
	if(n_rt < MAXEV + 1) {
		log_rt[n_rt].lp = me;
		log_rt[n_rt].t = now;
		log_rt[n_rt].type = type;
		log_rt[n_rt].size = size;
		log_rt[n_rt].pl = size ? *(const unsigned char *)c : 0;
	}
	n_rt++;
	if(ordinal < NSCHED) {
		struct ev e = tab[ordinal];
		e.t = now + e.t; /* delay 0 or 1 */
		/* API contract (checked by the runtime in debug builds): an event is never scheduled in the past,
		 * i.e. before the event being processed in the full event order */
		struct ev cur = {.lp = me, .t = now, .type = type, .size = size, .pl = size ? *(const unsigned char *)c : 0};
		VERIF_ASSUME(!ref_before(&e, &cur));
		sched(&e);
	}
	ordinal++;
}
#ifdef PRED
/* solver-chosen predicate results per (LP, evaluation ordinal); both executions read the same table */
static bool ptab[NLP_PRED][N0 + NSCHED + 1];
static unsigned pcalls[NLP_PRED];
static bool pred_at(lp_id_t me)
{
	unsigned k = pcalls[me] < N0 + NSCHED + 1 ? pcalls[me] : N0 + NSCHED;
	pcalls[me]++;
	return ptab[me][k];
}
static bool canend(lp_id_t me, const void *st)
{
	(void)st;
	return pred_at(me);
}
#else
static bool canend(lp_id_t me, const void *st)
{
	(void)me; (void)st;
	return false;
}
#endif

/* textbook executor: unsorted list, linear minimum under ref_before */
static struct ev pend[MAXEV + 1];
static unsigned npend;
static struct ev log_ref[MAXEV + 1];
static unsigned n_ref;
static void send_ref(const struct ev *e)
{
	if(npend < MAXEV + 1)
		pend[npend] = *e;
	npend++;
}
static struct lp_ctx L[NLP];
void harness(void)
{
	global_config.lps = NLP;
	global_config.serial = true;
	global_config.dispatcher = model;
	global_config.committed = canend;
	global_config.termination_time = SIMTIME_MAX;
	global_config.gvt_period = vin_u32() & 0xff;
	global_config.log_level = LOG_SILENT;
	lps = L;
	n_lps_node = NLP;
	for(unsigned i = 0; i < NLP; i++)
		L[i].termination_t = -1;
	msg_allocator_init();
	heap_init(queue);
	struct ev init[N0];
	unsigned n0 = 1 + vin_upto(N0 - 1);
	for(unsigned k = 0; k < N0; k++) {
		init[k].lp = vin_upto(NLP - 1);
		init[k].t = (double)vin_upto(2);
#ifdef PRED
		/* with a stop rule the outcome depends on the order of content-identical simultaneous events for DIFFERENT LPs,
		 * which the event order leaves open: every event gets its own type so that no two events are content-identical */
		init[k].type = k;
#else
		init[k].type = vin_upto(1);
#endif
		init[k].size = vin_upto(1);
		init[k].pl = init[k].size ? (vin_u8() & 1) : 0;
	}
	for(unsigned k = 0; k < NSCHED; k++) {
		tab[k].lp = vin_upto(NLP - 1);
		tab[k].t = (double)vin_upto(1);
#ifdef PRED
		tab[k].type = N0 + k;
#else
		tab[k].type = vin_upto(1);
#endif
		tab[k].size = vin_upto(1);
		tab[k].pl = tab[k].size ? (vin_u8() & 1) : 0;
	}
#ifdef PRED
	for(unsigned i = 0; i < NLP; i++)
		for(unsigned k = 0; k < N0 + NSCHED + 1; k++)
			ptab[i][k] = vin_bool();
#endif
	/* the runtime */
	sched = send_rt;
	for(unsigned k = 0; k < N0; k++)
		if(k < n0)
			send_rt(&init[k]);
	ordinal = 0;
	serial_simulation_run();
#ifndef PRED
	VERIF_ASSERT(heap_is_empty(queue), "the run ends when no event is left (no predicate holds, no termination time)");
#else
	for(unsigned i = 0; i < NLP; i++)
		pcalls[i] = 0;
	bool ref_done[NLP] = {false, false};
	unsigned ref_ndone = 0;
#endif
	/* the reference */
	sched = send_ref;
	for(unsigned k = 0; k < N0; k++)
		if(k < n0)
			send_ref(&init[k]);
	ordinal = 0;
	for(unsigned it = 0; it < MAXEV; it++) {
		if(npend == 0 || npend > MAXEV)
			break;
		unsigned m = 0;
		for(unsigned j = 1; j < MAXEV; j++)
			if(j < npend && ref_before(&pend[j], &pend[m]))
				m = j;
		struct ev e = pend[m];
		pend[m] = pend[npend - 1];
		npend--;
		if(n_ref < MAXEV + 1)
			log_ref[n_ref] = e;
		n_ref++;
#ifdef PRED
		/* stop rule from the statement: the run stops right after the event at which the last LP's predicate first holds;
		 * the predicate of an LP is sampled after each of its events until it has held once */
		bool stop_now = false;
		if(!ref_done[e.lp] && pred_at(e.lp)) {
			ref_done[e.lp] = true;
			ref_ndone++;
			stop_now = ref_ndone == NLP;
		}
#endif
		if(ordinal < NSCHED) {
			struct ev s = tab[ordinal];
			s.t = e.t + s.t;
			VERIF_ASSUME(!ref_before(&s, &e));
			send_ref(&s);
		}
		ordinal++;
#ifdef PRED
		if(stop_now)
			break;
#endif
	}
	VERIF_ASSERT(n_rt == n_ref && n_rt <= MAXEV, "every scheduled event is delivered exactly once (same number of deliveries as the reference)");
	for(unsigned k = 0; k < MAXEV; k++)
		if(k < n_rt && k < n_ref) {
			VERIF_ASSERT(log_rt[k].t == log_ref[k].t && log_rt[k].type == log_ref[k].type && log_rt[k].size == log_ref[k].size && log_rt[k].pl == log_ref[k].pl,
			    "the k-th delivered event has the content the reference delivers k-th (timestamp order, content tie-break)");
			if(k)
				VERIF_ASSERT(log_rt[k - 1].t <= log_rt[k].t, "timestamps are delivered in non-decreasing order");
		}
	/* per LP the delivered sequence is the reference's (events identical in content may go to different LPs in either order) */
	for(unsigned lp = 0; lp < NLP; lp++) {
		unsigned a = 0, b = 0;
		for(unsigned k = 0; k < MAXEV; k++) {
			if(k < n_rt && log_rt[k].lp == lp)
				a++;
			if(k < n_ref && log_ref[k].lp == lp)
				b++;
		}
		VERIF_ASSERT(a == b, "each LP receives as many events as in the reference execution");
	}
	VERIF_WITNESS("serial end reachable");
	if(n_rt == MAXEV)
		VERIF_WITNESS("serial run with every scheduled event delivered reachable");
#ifdef PRED
	if(n_rt >= 2 && n_rt < MAXEV && !heap_is_empty(queue))
		VERIF_WITNESS("serial run stopped by the predicates with events still pending reachable");
#endif
}

/* ---- the whole serial_simulation(): LP_INIT / LP_FINI bracketing and stop conditions ---- */
#define MAXF (NLP * 2 + N0 + NSCHED + 2)
static struct ev flog[MAXF];
static unsigned n_f;
static bool init_sends[NLP];
static struct ev init_ev[NLP];
static bool pred_tab[NLP][4];
static unsigned pred_calls[NLP];
static unsigned held_at[NLP]; /* dispatch count at which the LP's predicate first held (0 = never) */
static int lp_state[NLP];
static struct rng_ctx rng_store[NLP];
static void model_full(lp_id_t me, simtime_t now, unsigned type, const void *c, unsigned size, void *st)
{
	if(n_f < MAXF) {
		flog[n_f].lp = me;
		flog[n_f].t = now;
		flog[n_f].type = type;
		flog[n_f].size = size;
		flog[n_f].pl = size ? *(const unsigned char *)c : 0;
	}
	n_f++;
	if(type == LP_INIT) {
		VERIF_ASSERT(st == NULL && current_lp == &lps[me], "LP_INIT is dispatched on the LP's own context before any state exists");
		SetState(&lp_state[me]);
		if(init_sends[me])
			ScheduleNewEvent(init_ev[me].lp, init_ev[me].t, init_ev[me].type, &init_ev[me].pl, init_ev[me].size);
		return;
	}
	if(type == LP_FINI) {
		VERIF_ASSERT(st == &lp_state[me], "LP_FINI sees the LP's state");
		return;
	}
	VERIF_ASSERT(st == &lp_state[me], "events are handed the state pointer the LP set at LP_INIT");
	if(ordinal < NSCHED) {
		struct ev e = tab[ordinal];
		e.t = now + e.t;
		struct ev cur = {.lp = me, .t = now, .type = type, .size = size, .pl = size ? *(const unsigned char *)c : 0};
		VERIF_ASSUME(!ref_before(&e, &cur));
		ScheduleNewEvent(e.lp, e.t, e.type, &e.pl, e.size);
	}
	ordinal++;
}
static bool canend_full(lp_id_t me, const void *st)
{
	(void)st;
	unsigned k = pred_calls[me] < 4 ? pred_calls[me] : 3;
	pred_calls[me]++;
	bool r = pred_tab[me][k];
	if(r && !held_at[me])
		held_at[me] = n_f;
	return r;
}
void SetState(void *s) { current_lp->state_pointer = s; }
void ScheduleNewEvent(lp_id_t r, simtime_t t, unsigned ty, const void *p, unsigned sz) { ScheduleNewEvent_serial(r, t, ty, p, sz); }
void *verif_rs_malloc_full(void) { return &rng_store[current_lp - lps]; }

void harness_full(void)
{
	global_config.lps = NLP;
	global_config.serial = true;
	global_config.dispatcher = model_full;
	global_config.committed = canend_full;
	bool with_tt = vin_bool();
	global_config.termination_time = with_tt ? 1.0 : SIMTIME_MAX;
	global_config.gvt_period = vin_u32() & 0xff;
	global_config.log_level = LOG_SILENT;
	for(unsigned i = 0; i < NLP; i++) {
		init_sends[i] = vin_bool();
		init_ev[i].lp = vin_upto(NLP - 1);
		init_ev[i].t = (double)vin_upto(2);
		init_ev[i].type = vin_upto(1);
		init_ev[i].size = vin_upto(1);
		init_ev[i].pl = init_ev[i].size ? (vin_u8() & 1) : 0;
		for(unsigned k = 0; k < 4; k++)
			pred_tab[i][k] = vin_bool();
	}
	for(unsigned k = 0; k < NSCHED; k++) {
		tab[k].lp = vin_upto(NLP - 1);
		tab[k].t = (double)vin_upto(1);
		tab[k].type = vin_upto(1);
		tab[k].size = vin_upto(1);
		tab[k].pl = tab[k].size ? (vin_u8() & 1) : 0;
	}
	ordinal = 0;

	int rc = serial_simulation();

	VERIF_ASSERT(rc == 0, "the run returns normally");
	VERIF_ASSERT(n_f >= 2 * NLP && n_f <= MAXF, "at least LP_INIT and LP_FINI per LP are dispatched");
	for(unsigned i = 0; i < NLP; i++) {
		VERIF_ASSERT(flog[i].type == LP_INIT && flog[i].lp == i && flog[i].t == 0.0, "the run starts with LP_INIT for every LP, once, in id order, at time 0");
		VERIF_ASSERT(flog[n_f - NLP + i].type == LP_FINI && flog[n_f - NLP + i].lp == i, "the run ends with LP_FINI for every LP, once, in id order");
		VERIF_ASSERT(seeded_cnt[i] == 1, "every LP's generator is seeded exactly once, with its id");
	}
	unsigned n_ev = n_f - 2 * NLP;
	bool all_held = true;
	unsigned last_held = 0;
	for(unsigned i = 0; i < NLP; i++) {
		all_held = all_held && held_at[i] != 0;
		if(held_at[i] > last_held)
			last_held = held_at[i];
	}
	for(unsigned k = NLP; k < MAXF; k++)
		if(k < n_f - NLP) {
			VERIF_ASSERT(flog[k].type != LP_INIT && flog[k].type != LP_FINI, "no LP_INIT/LP_FINI in between");
			if(k > NLP)
				VERIF_ASSERT(flog[k - 1].t <= flog[k].t, "events are delivered in non-decreasing timestamp order");
		}
	unsigned scheduled = 0;
	for(unsigned i = 0; i < NLP; i++)
		scheduled += init_sends[i];
	if(all_held)
		VERIF_ASSERT(last_held == NLP + n_ev, "the run stops right at the event after which every LP's predicate has held");
	else if(n_ev)
		VERIF_ASSERT(heap_is_empty_after || (with_tt && flog[NLP + n_ev - 1].t >= 1.0), "otherwise it stops only when no event is left or an event at/after the termination time was delivered at a GVT tick");
	VERIF_WITNESS("full run end reachable");
	if(all_held && n_ev >= 2)
		VERIF_WITNESS("full run stopped by the predicates after two events reachable");
	if(!all_held && with_tt && n_ev >= 1 && !heap_is_empty_after)
		VERIF_WITNESS("full run stopped by the termination time reachable");
	(void)scheduled;
}
