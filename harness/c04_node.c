/* C04 (node level, one rank of two): the GVT reported by the real
 * gvt_phase_run() (both reductions, colour flip, sent-message counting, min
 * reduction) is a lower bound of every local pending message AND of every
 * message this rank sent to the other rank that may still be in MPI flight.
 * Real code: gvt/gvt.c (whole unit) + gvt.h stamping functions, one worker
 * thread on rank 0.  Rank 1 is a passive receiver (holds what it received,
 * sends nothing): by the colour protocol it has received every message of the
 * old colour before it contributes to the min-reduction, so the harness's
 * MPI_Allreduce model returns min(local value, old-colour messages sent). */
#define VERIF_NO_MAIN
#include "env.h"
#include <sys/time.h>
#include <gvt/gvt.c>
#include <distributed/control_msg.c>

struct simulation_configuration global_config;
__thread rid_t rid;
nid_t n_nodes = 2, nid = 0;
void termination_on_ctrl_msg(void) {}
bool sync_thread_barrier(void) { return true; }
#ifdef VERIF_CBMC
int gettimeofday(struct timeval *tv, void *tz)
{
	(void)tz;
	tv->tv_sec = vin_u32() & 0xffff;
	tv->tv_usec = 0;
	return 0;
}
#endif
#ifndef K
#define K 18
#endif
#define CAP 3
#define NS 3
static const double TS[8] = {1.0, 2.0, 3.0, 4.0, 5.0, 6.0, 7.0, 8.0};
static double any_ts(void) { return TS[vin_u32() % 8]; }
static double pend[CAP];
static struct {
	double t;
	bool colour, used;
} sent[NS];
static unsigned n_sent;

simtime_t msg_queue_time_peek(void)
{
	double m = SIMTIME_MAX;
	for(int i = 0; i < CAP; i++)
		if(pend[i] >= 0.0 && pend[i] < m)
			m = pend[i];
	return m;
}
/* MPI model */
void mpi_control_msg_broadcast(enum msg_ctrl_code c) { control_msg_process(c); }
void mpi_control_msg_send_to(enum msg_ctrl_code c, nid_t d)
{
	(void)d;
	control_msg_process(c);
}
void mpi_remote_msg_drain(void) {}
void mpi_node_barrier(void) {}
static unsigned scatter_calls;
void mpi_reduce_sum_scatter(const uint32_t values[n_nodes], uint32_t *result)
{
	scatter_calls++;
	/* what this rank must still receive: rank 1 sends nothing */
	*result = values[0];
	/* the old-colour messages counted for rank 1 are exactly those sent under the old colour */
	unsigned old = 0;
	for(unsigned i = 0; i < NS; i++)
		if(sent[i].used && sent[i].colour == !gvt_phase)
			old++;
	__CPROVER_assert(values[1] == old, "the messages announced to the other rank are exactly those sent under the old colour since the last round");
}
bool mpi_reduce_sum_scatter_done(void) { return vin_bool(); }
void mpi_reduce_min(double *p)
{
	/* rank 1 has received every old-colour message before contributing (its own sent-wait) */
	for(unsigned i = 0; i < NS; i++)
		if(sent[i].used && sent[i].colour == !gvt_phase && sent[i].t < *p)
			*p = sent[i].t;
}
bool mpi_reduce_min_done(void) { return vin_bool(); }

void harness(void)
{
	global_config.n_threads = 1;
	global_config.gvt_period = vin_u32() & 0xff;
	rid = 0;
	for(int i = 0; i < CAP; i++)
		pend[i] = vin_bool() ? any_ts() : -1.0;
	double G = 0.0;
	bool done = false;
	for(unsigned step = 0; step < K; step++) {
		if(vin_bool()) { /* process one message: maybe send to the other rank */
			double ts = -1.0;
			int slot = -1;
			for(int i = 0; i < CAP; i++)
				if(pend[i] >= 0.0 && (slot < 0 || pend[i] < ts)) {
					ts = pend[i];
					slot = i;
				}
			if(slot >= 0) {
				pend[slot] = -1.0;
				gvt_on_msg_extraction(ts);
				if(done)
					__CPROVER_assert(ts >= G, "after a GVT was reported nothing below it is extracted");
				if(vin_bool() && n_sent < NS) { /* remote send: stamped by the real gvt_remote_msg_send */
					struct lp_msg m;
					double nt = any_ts();
					__CPROVER_assume(nt >= ts);
					m.dest_t = nt;
					gvt_remote_msg_send(&m, 1);
					__CPROVER_assert((m.raw_flags & 1U) == (unsigned)gvt_phase && (m.m_seq & 1U) == (unsigned)gvt_phase, "a remote message carries the sender's current colour");
					sent[n_sent].t = nt;
					sent[n_sent].colour = gvt_phase;
					sent[n_sent].used = true;
					n_sent++;
				} else if(vin_bool()) { /* local send */
					unsigned sl = vin_u32() % CAP;
					double nt = any_ts();
					__CPROVER_assume(nt >= ts && pend[sl] < 0.0);
					pend[sl] = nt;
				}
			}
		} else if(!done) {
			simtime_t g = gvt_phase_run();
			if(g != 0.0) {
				done = true;
				G = g;
				for(int i = 0; i < CAP; i++)
					if(pend[i] >= 0.0)
						__CPROVER_assert(pend[i] >= G, "no locally pending message is below the reported GVT");
				for(unsigned i = 0; i < NS; i++)
					if(sent[i].used)
						__CPROVER_assert(sent[i].t >= G, "no message sent to another rank (possibly still in MPI flight) is below the reported GVT");
				__CPROVER_assert(scatter_calls == 1, "one sent-message reduction per round");
				__CPROVER_assert(0, "WITNESS a GVT value is reported");
				if(n_sent >= 1)
					__CPROVER_assert(0, "WITNESS a GVT value is reported with a remote message sent");
			}
		}
	}
	__CPROVER_assert(0, "WITNESS end reachable");
}
