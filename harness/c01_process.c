/* C01 / C03 / C06 / C02(M3) / C20(b): function-level obligations on the real
 * lp/process.c (whole unit included, so the static functions are reachable).
 * Every harness starts from an ARBITRARY per-LP history satisfying the
 * structural invariant and runs ONE real operation.
 * Linked as recording contract stubs (each discharged elsewhere): message
 * queue (C15), message allocator free lists, allocator checkpoint take/restore
 * (C05), termination hooks (C07), fossil collection (C13), GVT hook (C04),
 * MPI sends (C02).  Statistics are counted (C20). */
#define VERIF_NO_REALLOC
#define VERIF_COUNT_STATS
#include "env.h"
#include <stdlib.h>
#include <sys/time.h>
#include <lp/process.c>

#ifdef VERIF_RG
/* yield-point atomics (stubs_rg/stdatomic.h): the harness may run another thread's whole operation
 * before each atomic step of the operation under test */
unsigned verif_rmw_count;
static void (*yield_hook)(void);
void verif_yield(void)
{
	if(yield_hook)
		yield_hook();
}
#endif
struct simulation_configuration global_config;
__thread rid_t rid;
nid_t n_nodes = 1, nid;
uint64_t lid_node_first;
lp_id_t n_lps_node;
__thread struct lp_ctx *current_lp;
struct lp_ctx *lps;
__thread unsigned fossil_epoch_current;
__thread _Bool gvt_phase;
__thread uint32_t remote_msg_seq[2][MAX_NODES];
__thread uint32_t remote_msg_received[2];

#ifndef H
#define H 5
#endif
#define NNEW 2
#define NMSG (H + 1 + NNEW + 2) /* history + incoming + fresh buffers + early antis */
#define INC H			/* index of the incoming message */
#define NEW0 (H + 1)
#define EA0 (H + 1 + NNEW)

static struct lp_msg *M[NMSG];
static unsigned kind[H]; /* 0 processed event, 1 local-sent, 2 remote-sent */
static unsigned n_hist;
static unsigned ins[NMSG], fr[NMSG], atgvt[NMSG], rsent[NMSG], ranti[NMSG], unknown_ops;
static unsigned next_new;

static int idx_of(const struct lp_msg *m)
{
	for(unsigned k = 0; k < NMSG; k++)
		if(M[k] == m)
			return (int)k;
	unknown_ops++;
	return -1;
}
#define REC(arr, m)                                                                                                    \
	do {                                                                                                           \
		int _k = idx_of(m);                                                                                    \
		if(_k >= 0)                                                                                            \
			arr[_k]++;                                                                                     \
	} while(0)

/* ---- recording contract stubs ---- */
static struct lp_msg *incoming;
struct lp_msg *msg_queue_extract(void)
{
	struct lp_msg *m = incoming;
	incoming = NULL;
	return m;
}
void msg_queue_insert(struct lp_msg *m) { REC(ins, m); }
void msg_allocator_free(struct lp_msg *m) { REC(fr, m); }
void msg_allocator_free_at_gvt(struct lp_msg *m) { REC(atgvt, m); }
struct lp_msg *msg_allocator_alloc(unsigned payload_size)
{
	VERIF_ASSERT(next_new < NNEW, "harness provides enough fresh message buffers");
	struct lp_msg *m = M[NEW0 + (next_new < NNEW ? next_new : 0)];
	next_new++;
	m->pl_size = payload_size;
	return m;
}
void mpi_remote_msg_send(struct lp_msg *m, nid_t d)
{
	(void)d;
	REC(rsent, m);
	m->raw_flags = 0x1234u << 2; /* some unique id */
}
void mpi_remote_anti_msg_send(struct lp_msg *m, nid_t d)
{
	(void)d;
	REC(ranti, m);
}
void ScheduleNewEvent_serial(lp_id_t r, simtime_t t, unsigned ty, const void *p, unsigned s)
{
	(void)r; (void)t; (void)ty; (void)p; (void)s;
	unknown_ops++;
}
static unsigned n_gvt_ext;
static simtime_t gvt_ext_t;
void gvt_on_msg_extraction(simtime_t t)
{
	n_gvt_ext++;
	gvt_ext_t = t;
}
static unsigned n_fossil;
void fossil_lp_collect(struct lp_ctx *lp)
{
	(void)lp;
	n_fossil++;
}
static unsigned n_term_rb, n_term_proc;
static simtime_t term_rb_t, term_proc_t;
void termination_on_lp_rollback(struct lp_ctx *lp, simtime_t t)
{
	(void)lp;
	n_term_rb++;
	term_rb_t = t;
}
void termination_on_msg_process(struct lp_ctx *lp, simtime_t t)
{
	(void)lp;
	n_term_proc++;
	term_proc_t = t;
}
void auto_ckpt_recompute(struct auto_ckpt *a, uint_fast32_t s) { (void)a; (void)s; }
#ifdef VERIF_CBMC
int gettimeofday(struct timeval *tv, void *tz)
{
	(void)tz;
	tv->tv_sec = 0;
	tv->tv_usec = 0;
	return 0;
}
#endif
static unsigned n_take, n_restore;
static array_count_t take_ref, restore_arg, restore_ret;
void model_allocator_checkpoint_take(struct mm_state *s, array_count_t r)
{
	(void)s;
	n_take++;
	take_ref = r;
}
array_count_t model_allocator_checkpoint_restore(struct mm_state *s, array_count_t r)
{
	(void)s;
	n_restore++;
	restore_arg = r;
	return restore_ret <= r ? restore_ret : r;
}
void model_allocator_checkpoint_next_force_full(struct mm_state *s) { (void)s; }

/* ---- model: a recording dispatcher that also tries to schedule an event ---- */
#define MAXD (H + 2)
static unsigned n_disp;
static struct {
	simtime_t t;
	unsigned type, size;
	lp_id_t me;
	void *st;
	unsigned char pl0;
} disp[MAXD];
static unsigned model_sends; /* 0..NNEW events scheduled by every dispatched event */
static lp_id_t send_dest;
static void model(lp_id_t me, simtime_t now, unsigned type, const void *c, unsigned size, void *st)
{
	if(n_disp < MAXD) {
		disp[n_disp].t = now;
		disp[n_disp].type = type;
		disp[n_disp].size = size;
		disp[n_disp].me = me;
		disp[n_disp].st = st;
		disp[n_disp].pl0 = size ? *(const unsigned char *)c : 0;
	}
	n_disp++;
	for(unsigned k = 0; k < NNEW; k++)
		if(k < model_sends)
			ScheduleNewEvent(send_dest, now + 1.0, 77, NULL, 0);
}
static bool canend(lp_id_t me, const void *st)
{
	(void)me; (void)st;
	return false;
}

static struct lp_ctx L[2];
#define LP (&L[1]) /* the LP under test; LP 0 is the other end */
static int state_cell;

static struct lp_msg *mk_msg(void)
{
	struct lp_msg *m = malloc(sizeof(struct lp_msg));
	VERIF_ASSUME(m != NULL);
	m->next = NULL;
	m->dest = 1;
	m->dest_t = vin_time();
	VERIF_ASSUME(m->dest_t >= 0.0 && m->dest_t < SIMTIME_MAX);
	m->m_type = vin_u32() & 3;
	m->pl_size = vin_upto(1);
	m->pl[0] = vin_u8();
	m->m_seq = 0;
	m->raw_flags = 0;
	return m;
}

/* arbitrary history satisfying the structural invariant */
static void mk_history(bool need_last_processed)
{
	lps = L;
	n_lps_node = 2;
	global_config.lps = 2;
	global_config.n_threads = 1;
	global_config.dispatcher = model;
	global_config.committed = canend;
	global_config.serial = false;
#ifdef REMOTE
	n_nodes = 2; /* LP 1 (under test) is hosted by this rank 1, LP 0 by rank 0 */
	nid = 1;
	lid_node_first = 1;
	n_lps_node = 1;
#endif
	rid = 0;
	for(unsigned k = 0; k < NMSG; k++)
		M[k] = mk_msg();
	array_init(LP->p.p_msgs);
	array_init(L[0].p.p_msgs);
	LP->p.early_antis = NULL;
	LP->state_pointer = &state_cell;
	LP->fossil_epoch = fossil_epoch_current;
	LP->auto_ckpt.ckpt_interval = 1 + vin_upto(2);
	LP->auto_ckpt.ckpt_rem = vin_upto(2);
	VERIF_ASSUME(LP->auto_ckpt.ckpt_rem < LP->auto_ckpt.ckpt_interval);
	n_hist = 1 + vin_upto(H - 1);
	int last_proc = -1;
	for(unsigned k = 0; k < H; k++) {
		kind[k] = vin_upto(2);
		if(k >= n_hist)
			continue;
		if(need_last_processed && k == n_hist - 1)
			kind[k] = 0;
		if(kind[k] == 0) {
			/* processed events are in the runtime's order: no later one is before an earlier one */
			if(last_proc >= 0)
				VERIF_ASSUME(!msg_is_before(M[k], M[last_proc]));
			last_proc = (int)k;
			M[k]->raw_flags = MSG_FLAG_PROCESSED | (vin_bool() ? MSG_FLAG_ANTI : 0);
			array_push(LP->p.p_msgs, M[k]);
		} else if(kind[k] == 1) {
			M[k]->dest = 0;
			M[k]->raw_flags = vin_bool() ? MSG_FLAG_PROCESSED : 0; /* the receiver's progress */
			array_push(LP->p.p_msgs, (struct lp_msg *)((uintptr_t)M[k] | 1U));
		} else {
			M[k]->dest = 0;
			M[k]->raw_flags = (vin_u32() & 0xffff) << 2;
			array_push(LP->p.p_msgs, (struct lp_msg *)((uintptr_t)M[k] | 2U));
		}
	}
	LP->p.bound = last_proc >= 0 ? M[last_proc]->dest_t : 0.0;
	current_lp = LP;
}

static struct lp_msg *hist_at(unsigned i) { return array_get_at(LP->p.p_msgs, i); }
static struct lp_msg *tagged(unsigned k) { return kind[k] ? (struct lp_msg *)((uintptr_t)M[k] | kind[k]) : M[k]; }
static bool prefix_intact(unsigned upto)
{
	bool ok = true;
	for(unsigned k = 0; k < H; k++)
		if(k < upto)
			ok = ok && hist_at(k) == tagged(k);
	return ok;
}
/* the start of the group of entry k: index just after the previous processed event (0 if none) */
static unsigned group_start(unsigned k)
{
	unsigned g = 0;
	for(unsigned j = 0; j < H; j++)
		if(j < k && kind[j] == 0)
			g = j + 1;
	return g;
}

/* ---------------- L1: match_straggler_msg ---------------- */
void harness_L1(void)
{
	mk_history(true);
	struct lp_msg *s = M[INC];
	VERIF_ASSUME(msg_is_before(s, M[n_hist - 1])); /* the caller's test: a straggler w.r.t. the newest event */
	array_count_t r = match_straggler_msg(&LP->p, s);
	/* expected, from the statement: events the sequential order places after s are cut, the others stay */
	unsigned exp = 0;
	for(unsigned k = 0; k < H; k++)
		if(k < n_hist && kind[k] == 0 && !msg_is_before(s, M[k]))
			exp = k + 1;
	VERIF_ASSERT(r == exp, "L1: the straggler rolls back exactly the processed events that are after it in the event order (ties decided by content)");
	VERIF_ASSERT(r < n_hist && (r == 0 || kind[r - 1] == 0), "L1: the cut is a group boundary");
	VERIF_WITNESS("L1 end reachable");
	bool tie3 = false;
	for(unsigned k = 1; k < H; k++)
		if(k + 1 < n_hist && kind[k] == 0 && kind[k - 1] == 0 && M[k]->dest_t == s->dest_t && M[k - 1]->dest_t == s->dest_t)
			tie3 = true;
	if(tie3 && exp == 0)
		VERIF_WITNESS("L1 three-way timestamp tie decided by content reachable");
}

/* ---------------- L2: match_anti_msg ---------------- */
void harness_L2(void)
{
	mk_history(true);
	unsigned k = vin_upto(H - 1);
	VERIF_ASSUME(k < n_hist && kind[k] == 0);
	array_count_t r = match_anti_msg(&LP->p, M[k]);
	VERIF_ASSERT(r == group_start(k), "L2: an anti-message rolls back to the start of the group (sent entries + event) of the event it cancels");
	VERIF_WITNESS("L2 end reachable");
}

/* ---------------- L4: send_anti_messages ---------------- */
void harness_L4(void)
{
	mk_history(true);
	unsigned past_i = vin_upto(H - 1);
	VERIF_ASSUME(past_i < n_hist && (past_i == 0 || kind[past_i - 1] == 0));
	uint32_t f0[H];
	for(unsigned k = 0; k < H; k++)
		f0[k] = M[k]->raw_flags;
	send_anti_messages(&LP->p, past_i);
	VERIF_ASSERT(array_count(LP->p.p_msgs) == past_i && prefix_intact(past_i), "L4: the history is cut at the target and the kept prefix is untouched");
	unsigned n_anti = 0, n_rb = 0;
	for(unsigned k = 0; k < H; k++) {
		if(k >= n_hist)
			continue;
		if(k < past_i) {
			VERIF_ASSERT(M[k]->raw_flags == f0[k] && !ins[k] && !ranti[k] && !atgvt[k], "L4: entries of events that stay valid are never cancelled or re-queued");
		} else if(kind[k] == 1) {
			n_anti++;
			VERIF_ASSERT(M[k]->raw_flags == (f0[k] | MSG_FLAG_ANTI), "L4: every undone local send is flagged cancelled exactly once");
			VERIF_ASSERT(ins[k] == ((f0[k] & MSG_FLAG_PROCESSED) ? 1U : 0U), "L4: the cancelled buffer is re-queued (as anti-message) iff the receiver had already processed it");
		} else if(kind[k] == 2) {
			n_anti++;
			VERIF_ASSERT(ranti[k] == 1 && atgvt[k] == 1 && !ins[k], "L4: every undone remote send gets exactly one remote anti-message and is parked until GVT");
		} else {
			n_rb++;
			VERIF_ASSERT(M[k]->raw_flags == (f0[k] & ~(uint32_t)MSG_FLAG_PROCESSED), "L4: an undone event loses its processed mark exactly once");
			VERIF_ASSERT(ins[k] == ((f0[k] & MSG_FLAG_ANTI) ? 0U : 1U), "L4: an undone event is re-queued exactly once unless it was cancelled meanwhile");
		}
		VERIF_ASSERT(!fr[k], "L4: send_anti_messages releases no buffer");
	}
	VERIF_ASSERT(verif_stats[STATS_MSG_ANTI] == n_anti, "C20: the anti-message counter grows by the number of undone sends");
	VERIF_ASSERT(verif_stats[STATS_MSG_ROLLBACK] == n_rb, "C20: the undone-event counter grows by the number of undone events");
	VERIF_ASSERT(unknown_ops == 0, "L4: no other buffer is touched");
	VERIF_WITNESS("L4 end reachable");
	if(n_anti >= 1 && n_rb >= 2)
		VERIF_WITNESS("L4 cascade of two events with a send reachable");
}

/* ---------------- L3: do_rollback ---------------- */
void harness_L3(void)
{
	mk_history(true);
	unsigned past_i = vin_upto(H - 1);
	VERIF_ASSUME(past_i < n_hist && (past_i == 0 || kind[past_i - 1] == 0));
	restore_ret = vin_upto(H - 1); /* the newest checkpoint not after the target (C05 contract) */
	VERIF_ASSUME(restore_ret <= past_i && (restore_ret == 0 || kind[restore_ret - 1] == 0));
	model_sends = vin_upto(NNEW);
	send_dest = vin_upto(1);
	do_rollback(LP, past_i);
	VERIF_ASSERT(n_restore == 1 && restore_arg == past_i, "L3: the allocator is restored exactly once, to the rollback target");
	VERIF_ASSERT(array_count(LP->p.p_msgs) == past_i && prefix_intact(past_i), "L3: the history is cut at the target");
	unsigned c = 0;
	for(unsigned k = 0; k < H; k++)
		if(k >= restore_ret && k < past_i && kind[k] == 0) {
			VERIF_ASSERT(c < n_disp && c < MAXD && disp[c].t == M[k]->dest_t && disp[c].type == M[k]->m_type && disp[c].size == M[k]->pl_size &&
				(M[k]->pl_size == 0 || disp[c].pl0 == M[k]->pl[0]) && disp[c].st == LP->state_pointer && disp[c].me == 1,
			    "L3: coast-forward re-executes exactly the still-valid events after the restored checkpoint, in order, with their own content and the LP's state");
			c++;
		}
	VERIF_ASSERT(n_disp == c, "L3: nothing else is re-executed");
	VERIF_ASSERT(next_new == 0 && unknown_ops == 0, "L3: events scheduled during silent re-execution are suppressed (nothing allocated, queued or sent)");
	for(unsigned k = 0; k < NMSG; k++)
		VERIF_ASSERT(k < H || (!ins[k] && !rsent[k]), "L3: no new message leaves the LP during coast-forward");
	VERIF_ASSERT(!silent_processing, "L3: silent mode is switched off again");
	VERIF_ASSERT(verif_stats[STATS_ROLLBACK] == 1 && verif_stats[STATS_MSG_SILENT] == c, "C20: one rollback and exactly the re-executed events are counted");
	VERIF_WITNESS("L3 end reachable");
	if(c >= 2 && model_sends)
		VERIF_WITNESS("L3 two events re-executed silently with suppressed sends reachable");
}

/* ---------------- L5: one process_msg() step ---------------- */
/* MODE 0: fresh local event (flags 0): in order, tie or straggler.
 * MODE 1: local anti-message, flags ANTI (cancelled before processing) or ANTI|PROCESSED (cancelled after).
 * MODE 2: remote event (id bits set) with 0..2 early anti-messages parked.
 * MODE 3: remote anti-message whose event is / is not in the history. */
#ifndef MODE
#define MODE 0
#endif
#ifndef AK
#define AK H
#endif
#ifndef NEARLY
#define NEARLY 2
#endif
void harness_step(void)
{
	mk_history(true);
	struct lp_msg *m = M[INC];
	restore_ret = vin_upto(H - 1);
	VERIF_ASSUME(restore_ret == 0 || (restore_ret < n_hist && kind[restore_ret - 1] == 0));
	model_sends = vin_upto(NNEW);
	send_dest = vin_upto(1);
	bool fossil_due = vin_bool();
	if(fossil_due)
		fossil_epoch_current++;
	uint32_t f0[H];
	for(unsigned k = 0; k < H; k++)
		f0[k] = M[k]->raw_flags;
	unsigned rem0 = LP->auto_ckpt.ckpt_rem, itv = LP->auto_ckpt.ckpt_interval;
	unsigned tgt = 0; /* expected rollback target */
	unsigned ak = 0; /* index of the history entry the incoming message refers to (MODE 1 / 3) */
	bool rolled = false, executed = false;
#if MODE == 0
	m->raw_flags = 0;
	bool strag = msg_is_before(m, M[n_hist - 1]);
	if(strag) {
		for(unsigned k = 0; k < H; k++)
			if(k < n_hist && kind[k] == 0 && !msg_is_before(m, M[k]))
				tgt = k + 1;
		rolled = true;
	}
	executed = true;
#elif MODE == 1
	/* the incoming buffer IS an entry of the history when it was processed before being cancelled */
	/* AK: which history entry is the cancelled event (a constant per query keeps the buffer pointer concrete); AK >= H: not yet processed */
	bool after = AK < H;
	ak = AK < H ? AK : 0;
	if(after) {
		VERIF_ASSUME(ak < n_hist && kind[ak] == 0);
		m = M[ak];
		m->raw_flags = MSG_FLAG_ANTI; /* sender set ANTI, the receiver's send_anti/rollback cleared PROCESSED? no: still processed */
		m->raw_flags = MSG_FLAG_ANTI | MSG_FLAG_PROCESSED;
		tgt = group_start(ak);
		rolled = true;
	} else {
		m->raw_flags = MSG_FLAG_ANTI;
	}
	f0[ak < H ? ak : 0] = after ? m->raw_flags : f0[ak < H ? ak : 0];
#elif MODE == 2
	m->raw_flags = ((vin_u32() & 0xff) + 1) << 2;
	m->m_seq = vin_u32() & 3;
	unsigned n_early = NEARLY; /* constant per query */
	unsigned match_e = 2; /* which early anti matches (2 = none) */
	for(unsigned e = 0; e < 2; e++) {
		if(e >= n_early)
			break;
		struct lp_msg *a = M[EA0 + e];
		a->raw_flags = (((vin_u32() & 0xff) + 1) << 2) | MSG_FLAG_PROCESSED; /* as parked by a previous step (MODE 3) */
		a->m_seq = vin_u32() & 3;
		a->next = LP->p.early_antis;
		LP->p.early_antis = a;
	}
	/* ids of distinct messages are distinct */
	if(n_early == 2)
		VERIF_ASSUME(M[EA0]->raw_flags != M[EA0 + 1]->raw_flags || M[EA0]->m_seq != M[EA0 + 1]->m_seq);
	for(unsigned e = 0; e < 2; e++)
		if(e < n_early && M[EA0 + e]->raw_flags == (m->raw_flags | MSG_FLAG_PROCESSED) && M[EA0 + e]->m_seq == m->m_seq)
			match_e = e;
	bool strag = msg_is_before(m, M[n_hist - 1]);
	if(match_e == 2) {
		executed = true;
		if(strag) {
			for(unsigned k = 0; k < H; k++)
				if(k < n_hist && kind[k] == 0 && !msg_is_before(m, M[k]))
					tgt = k + 1;
			rolled = true;
		}
	}
#else
	/* remote anti-message: a separate buffer carrying the id of the event it cancels */
	bool present = AK < H;
	ak = AK < H ? AK : 0;
	m->m_type = 0;
	m->pl_size = 0;
	if(present) {
		VERIF_ASSUME(ak < n_hist && kind[ak] == 0);
		M[ak]->raw_flags = (((vin_u32() & 0xff) + 1) << 2) | MSG_FLAG_PROCESSED;
		M[ak]->m_seq = vin_u32() & 3;
		f0[ak] = M[ak]->raw_flags;
		m->raw_flags = (M[ak]->raw_flags & ~(uint32_t)3) | MSG_FLAG_ANTI;
		m->m_seq = M[ak]->m_seq;
		m->dest_t = M[ak]->dest_t;
		/* every other processed entry has a different id */
		for(unsigned k = 0; k < H; k++)
			if(k < n_hist && k != ak && kind[k] == 0)
				VERIF_ASSUME((M[k]->raw_flags & ~(uint32_t)3) != (M[ak]->raw_flags & ~(uint32_t)3) || M[k]->m_seq != M[ak]->m_seq);
		tgt = group_start(ak);
		rolled = true;
	} else {
		m->raw_flags = (((vin_u32() & 0xff) + 1) << 2) | MSG_FLAG_ANTI;
		m->m_seq = vin_u32() & 3;
		for(unsigned k = 0; k < H; k++)
			if(k < n_hist && kind[k] == 0)
				VERIF_ASSUME((M[k]->raw_flags & ~(uint32_t)3) != (m->raw_flags & ~(uint32_t)3) || M[k]->m_seq != m->m_seq);
	}
#endif
	if(rolled)
		VERIF_ASSUME(restore_ret <= tgt);
	int mi = idx_of(m);
	incoming = m;
	simtime_t mt = m->dest_t;

	process_msg();

	VERIF_ASSERT(incoming == NULL && n_gvt_ext == 1 && gvt_ext_t == mt, "step: one message extracted and reported to the GVT module with its timestamp");
	VERIF_ASSERT(current_lp == LP, "step: the destination LP is the current LP");
	VERIF_ASSERT(n_fossil == (fossil_due ? 1U : 0U), "step: fossil collection runs iff a new GVT was announced since the LP's last collection");
	unsigned cnt = array_count(LP->p.p_msgs);
	unsigned kept = rolled ? tgt : n_hist;
	/* rollback part */
	VERIF_ASSERT(n_restore == (rolled ? 1U : 0U) && (!rolled || restore_arg == tgt), "step: a rollback happens iff the message is a straggler / cancels a processed event, to the exact target");
	VERIF_ASSERT(n_term_rb == (rolled ? 1U : 0U) && (!rolled || term_rb_t == mt), "step: the termination module is told about every rollback with the timestamp that caused it");
	VERIF_ASSERT(cnt >= kept && prefix_intact(kept), "step: entries of events that stay valid are never removed, duplicated or reordered");
	for(unsigned k = 0; k < H; k++) {
		if(k >= n_hist || (MODE == 1 && M[k] == m) || (MODE == 3 && rolled && k == ak))
			continue;
		if(k < kept)
			VERIF_ASSERT(M[k]->raw_flags == f0[k] && !ins[k] && !fr[k] && !ranti[k], "step: buffers of the kept prefix are untouched");
		else if(kind[k] == 1)
			VERIF_ASSERT(M[k]->raw_flags == (f0[k] | MSG_FLAG_ANTI) && ins[k] == ((f0[k] & MSG_FLAG_PROCESSED) ? 1U : 0U) && !fr[k], "step: every send of an undone event is cancelled exactly once");
		else if(kind[k] == 2)
			VERIF_ASSERT(ranti[k] == 1 && atgvt[k] == 1 && !fr[k], "step: every remote send of an undone event gets one anti-message");
		else
			VERIF_ASSERT(M[k]->raw_flags == (f0[k] & ~(uint32_t)MSG_FLAG_PROCESSED) && ins[k] == ((f0[k] & MSG_FLAG_ANTI) ? 0U : 1U) && !fr[k], "step: every undone event is re-queued exactly once unless cancelled");
	}
	/* coast-forward + forward execution */
	unsigned c = 0;
	for(unsigned k = 0; k < H; k++)
		if(rolled && k >= restore_ret && k < tgt && kind[k] == 0) {
			VERIF_ASSERT(c < n_disp && c < MAXD && disp[c].t == M[k]->dest_t && disp[c].type == M[k]->m_type, "step: coast-forward re-executes the still-valid events after the checkpoint, in order");
			c++;
		}
	if(executed) {
		VERIF_ASSERT(n_disp == c + 1 && c < MAXD && disp[c].t == mt && disp[c].type == m->m_type && disp[c].size == m->pl_size && disp[c].st == LP->state_pointer,
		    "step: the message is executed exactly once, after the state has been rebuilt");
		VERIF_ASSERT(cnt == kept + model_sends + 1 && hist_at(cnt - 1) == m, "step: the new history is the kept prefix + the event's sends + the event");
		VERIF_ASSERT((m->raw_flags & MSG_FLAG_PROCESSED) && !fr[mi] && !ins[mi], "step: the executed buffer is marked processed and stays owned by the history");
		{ /* History invariant preserved: no kept processed event is after the newly executed one in the event order.
		   * A kept entry that its sender has cancelled meanwhile (ANTI set, anti-message still queued) compares as
		   * "first at its timestamp" and stops the straggler search; entries in front of it are exempt: the pending
		   * anti-message rolls the LP back to that entry's group, which also undoes this event and re-queues it, so
		   * it is ordered again against those entries then (worked out on a solver counterexample, see DESIGN.md A.4). */
			unsigned from = 0;
			for(unsigned k = 0; k < H; k++)
				if(k < kept && kind[k] == 0 && (f0[k] & MSG_FLAG_ANTI))
					from = k;
			for(unsigned k = 0; k < H; k++)
				if(k < kept && k >= from && kind[k] == 0)
					VERIF_ASSERT(!msg_is_before(m, M[k]), "step: the history invariant is preserved - no kept processed event (after the newest cancelled one) is after the newly executed event in the event order");
		}
		for(unsigned k = 0; k < NNEW; k++)
			if(k < model_sends) {
				struct lp_msg *sm = M[NEW0 + k];
				if(send_dest == 1 || n_nodes == 1)
					VERIF_ASSERT(hist_at(kept + k) == (struct lp_msg *)((uintptr_t)sm | 1U) && ins[NEW0 + k] == 1 && !rsent[NEW0 + k] && sm->raw_flags == 0 && sm->dest == send_dest && sm->dest_t == mt + 1.0,
					    "step: every event scheduled by a forward execution is queued exactly once and recorded as sent");
				else
					VERIF_ASSERT(hist_at(kept + k) == (struct lp_msg *)((uintptr_t)sm | 2U) && rsent[NEW0 + k] == 1 && !ins[NEW0 + k] && sm->dest == send_dest && sm->dest_t == mt + 1.0,
					    "step: an event for an LP of another rank is handed to MPI exactly once, never queued locally, and recorded as a remote send");
			}
		VERIF_ASSERT(next_new == model_sends, "step: exactly the scheduled events are allocated");
		VERIF_ASSERT(LP->p.bound == mt, "step: the LP's time bound is the executed event's timestamp");
		VERIF_ASSERT(n_term_proc == 1 && term_proc_t == mt, "step: the termination predicate is sampled after the event, with its timestamp");
		bool ck = rem0 + 1 >= itv;
		VERIF_ASSERT(n_take == (ck ? 1U : 0U) && (!ck || take_ref == cnt), "step: a checkpoint is taken every ckpt_interval events, positioned right after the event");
		VERIF_ASSERT(verif_stats[STATS_MSG_PROCESSED] == 1 && verif_stats[STATS_CKPT] == (ck ? 1U : 0U), "C20: one forward execution (and the checkpoint) counted");
	} else {
		VERIF_ASSERT(n_disp == c && cnt == kept && n_term_proc == 0 && n_take == 0 && next_new == 0, "step: a cancelled message is not executed and adds nothing to the history");
		VERIF_ASSERT(verif_stats[STATS_MSG_PROCESSED] == 0, "C20: no forward execution counted");
	}
	VERIF_ASSERT(verif_stats[STATS_ROLLBACK] == (rolled ? 1U : 0U) && verif_stats[STATS_MSG_SILENT] == c, "C20: rollbacks and silent re-executions are counted exactly");
#if MODE == 1
	VERIF_ASSERT(fr[mi] == 1 && !ins[mi], "step: a cancelled local message is released exactly once, wherever it was (queued or already processed)");
	if(after)
		VERIF_ASSERT(cnt == tgt, "step: the cancelled event and everything after it are gone from the history");
#elif MODE == 2
	if(match_e != 2) {
		VERIF_ASSERT(fr[mi] == 1 && fr[EA0 + match_e] == 1, "step: an event annihilated by an early anti-message: both buffers released exactly once");
		unsigned other = 1 - match_e;
		if(n_early == 2) {
			VERIF_ASSERT(!fr[EA0 + other] && LP->p.early_antis == M[EA0 + other] && M[EA0 + other]->next == NULL, "step: every other early anti-message stays parked");
		} else
			VERIF_ASSERT(LP->p.early_antis == NULL, "step: the early anti-message list loses exactly the matched entry");
	} else {
		unsigned le = 0;
		for(struct lp_msg *a = LP->p.early_antis; a && le < 3; a = a->next)
			le++;
		VERIF_ASSERT(le == n_early && !fr[EA0] && !fr[EA0 + 1], "step: an unrelated event leaves the early anti-messages parked");
	}
#elif MODE == 3
	if(present) {
		VERIF_ASSERT(fr[mi] == 1 && fr[ak] == 1 && cnt == tgt, "step: a remote anti-message undoes exactly its event: both buffers released once, history cut at the event's group");
	} else {
		VERIF_ASSERT(LP->p.early_antis == m && !fr[mi] && cnt == n_hist && n_restore == 0, "step: a remote anti-message whose event has not arrived is parked, nothing else changes");
	}
#endif
	VERIF_ASSERT(unknown_ops == 0, "step: no buffer outside the scenario is touched");
	VERIF_WITNESS("step end reachable");
#if MODE == 0 || MODE == 2 || (AK > 0 && AK < H)
	if(rolled && c >= 1)
		VERIF_WITNESS("step with rollback and coast-forward reachable");
#elif AK == 0
	if(rolled)
		VERIF_WITNESS("step with rollback to the start of the history reachable");
#endif
#if MODE == 2
	if(match_e == 0 && n_early == 2)
		VERIF_WITNESS("step matching the older of two early anti-messages reachable");
#endif
}

/* ---------------- remote paths as direct calls of the real static functions ---------------- */
/* check_early_anti_messages: a remote event meets the list of parked early anti-messages */
#ifndef NE
#define NE 3
#endif
void harness_early(void)
{
	mk_history(true);
	struct lp_msg *m = M[INC];
	m->raw_flags = (((vin_u32() & 0xff) + 1) << 2) | MSG_FLAG_PROCESSED; /* id, as process_msg() sees it */
	m->m_seq = vin_u32() & 3;
	static struct lp_msg *E[NE];
	unsigned match = NE;
	for(unsigned e = 0; e < NE; e++) {
		E[e] = e < 2 ? M[EA0 + e] : M[NEW0];
		E[e]->raw_flags = (((vin_u32() & 0xff) + 1) << 2) | MSG_FLAG_PROCESSED;
		E[e]->m_seq = vin_u32() & 3;
		for(unsigned d = 0; d < e; d++)
			VERIF_ASSUME(E[d]->raw_flags != E[e]->raw_flags || E[d]->m_seq != E[e]->m_seq); /* ids are unique */
		if(E[e]->raw_flags == m->raw_flags && E[e]->m_seq == m->m_seq)
			match = e;
	}
	/* list order: E[NE-1] is the head (newest), E[0] the oldest */
	LP->p.early_antis = NULL;
	for(unsigned e = 0; e < NE; e++) {
		E[e]->next = LP->p.early_antis;
		LP->p.early_antis = E[e];
	}
	bool r = check_early_anti_messages(&LP->p, m);
	VERIF_ASSERT(r == (match < NE), "early: a remote event is annihilated iff an early anti-message carries its id");
	/* expected remaining list: every unmatched entry, in the same order */
	struct lp_msg *a = LP->p.early_antis;
	for(unsigned e = NE; e-- > 0;) {
		if(e == match)
			continue;
		VERIF_ASSERT(a == E[e], "early: every other early anti-message stays parked, in order (it still has an event to cancel)");
		a = a ? a->next : NULL;
	}
	VERIF_ASSERT(a == NULL, "early: the list ends after the unmatched entries");
	int mi = idx_of(m);
	if(match < NE)
		VERIF_ASSERT(fr[mi] == 1 && fr[idx_of(E[match])] == 1, "early: the event and its anti-message are released exactly once");
	else
		VERIF_ASSERT(fr[mi] == 0, "early: an unrelated event is not released");
	for(unsigned e = 0; e < NE; e++)
		if(e != match)
			VERIF_ASSERT(fr[idx_of(E[e])] == 0, "early: unmatched anti-messages are not released");
	VERIF_WITNESS("early end reachable");
	if(match == 0)
		VERIF_WITNESS("early: oldest of three parked anti-messages matched reachable");
}

/* handle_remote_anti_msg: AK < H: the cancelled event is history entry AK; else it has not arrived */
void harness_ranti(void)
{
	mk_history(true);
	struct lp_msg *a = M[INC];
	bool present = AK < H;
	unsigned ak = AK < H ? AK : 0;
	restore_ret = vin_upto(H - 1);
	VERIF_ASSUME(restore_ret == 0 || (restore_ret < n_hist && kind[restore_ret - 1] == 0));
	a->m_type = 0;
	a->pl_size = 0;
	uint32_t id = ((vin_u32() & 0xff) + 1) << 2;
	a->raw_flags = id | MSG_FLAG_ANTI | MSG_FLAG_PROCESSED; /* as process_msg() hands it over */
	a->m_seq = vin_u32() & 3;
	if(present) {
		VERIF_ASSUME(ak < n_hist && kind[ak] == 0);
		M[ak]->raw_flags = id | MSG_FLAG_PROCESSED;
		M[ak]->m_seq = a->m_seq;
	}
	/* some other processed entries are remote events too, with ids differing in at least one component */
	for(unsigned k = 0; k < H; k++)
		if(k < n_hist && kind[k] == 0 && !(present && k == ak) && vin_bool()) {
			M[k]->raw_flags = (((vin_u32() & 0xff) + 1) << 2) | MSG_FLAG_PROCESSED;
			M[k]->m_seq = vin_u32() & 3;
			VERIF_ASSUME(M[k]->raw_flags != (id | MSG_FLAG_PROCESSED) || M[k]->m_seq != a->m_seq);
		}
	uint32_t f0[H];
	for(unsigned k = 0; k < H; k++)
		f0[k] = M[k]->raw_flags;
	unsigned tgt = present ? group_start(ak) : 0;
	if(present)
		VERIF_ASSUME(restore_ret <= tgt);
	handle_remote_anti_msg(LP, a);
	int ai = idx_of(a);
	if(present) {
		VERIF_ASSERT(n_restore == 1 && restore_arg == tgt && array_count(LP->p.p_msgs) == tgt && prefix_intact(tgt), "ranti: exactly the cancelled remote event (and what followed it) is undone");
		VERIF_ASSERT(fr[ai] == 1 && fr[ak] == 1 && !ins[ak], "ranti: the event and its anti-message are released exactly once, the event is not re-queued");
		VERIF_ASSERT(n_term_rb == 1 && term_rb_t == M[ak]->dest_t, "ranti: the termination module is told about the rollback");
		for(unsigned k = 0; k < H; k++)
			if(k < n_hist && k > ak && kind[k] == 0)
				VERIF_ASSERT(ins[k] == ((f0[k] & MSG_FLAG_ANTI) ? 0U : 1U) && !fr[k], "ranti: later events are re-queued, not released");
	} else {
		VERIF_ASSERT(LP->p.early_antis == a && a->next == NULL && n_restore == 0 && array_count(LP->p.p_msgs) == n_hist && prefix_intact(n_hist) && !fr[ai],
		    "ranti: an anti-message that overtook its event is parked and nothing else changes");
		/* and the event arriving later is annihilated by it */
		struct lp_msg *ev = M[NEW0];
		ev->raw_flags = id | MSG_FLAG_PROCESSED;
		ev->m_seq = a->m_seq;
		VERIF_ASSERT(check_early_anti_messages(&LP->p, ev) && fr[ai] == 1 && fr[NEW0] == 1 && LP->p.early_antis == NULL, "ranti: the event arriving later is annihilated exactly once");
	}
	VERIF_ASSERT(unknown_ops == 0, "ranti: no other buffer is touched");
	VERIF_WITNESS("ranti end reachable");
}


#ifdef VERIF_RG
/* ---------------- C06: the two sides race on one buffer ---------------- */
/* The receiver's real process_msg() extracts buffer b (sent by LP 0's event, still fresh) while the
 * sender's real send_anti_messages() undoing that event runs at ANY atomic step of the receiver
 * (before its read-modify-write on b's flag word, or after it), or afterwards. */
static bool cancelled;
static unsigned sender_rmw;
static void sender_cancels(void)
{
	if(cancelled || !vin_bool())
		return;
	cancelled = true;
	void (*h)(void) = yield_hook;
	yield_hook = NULL; /* the sender's operation runs to completion */
	struct lp_ctx *cur = current_lp;
	unsigned r0 = verif_rmw_count;
	send_anti_messages(&L[0].p, 0);
	sender_rmw += verif_rmw_count - r0;
	current_lp = cur;
	yield_hook = h;
}
void harness_race(void)
{
	mk_history(true);
	struct lp_msg *b = M[INC];
	b->raw_flags = 0;
	/* the sender's history: [sent b, event e] */
	struct lp_msg *e = M[NEW0 + 1];
	e->dest = 0;
	e->raw_flags = MSG_FLAG_PROCESSED;
	array_push(L[0].p.p_msgs, (struct lp_msg *)((uintptr_t)b | 1U));
	array_push(L[0].p.p_msgs, e);
	restore_ret = 0;
	model_sends = 0;
	bool strag = msg_is_before(b, M[n_hist - 1]);
	unsigned disp0 = n_disp;
	int bi = idx_of(b);
	incoming = b;
	yield_hook = sender_cancels;
	unsigned r0 = verif_rmw_count;
	process_msg();
	unsigned recv_rmw = verif_rmw_count - r0 - sender_rmw;
	yield_hook = NULL;
	bool during = cancelled;
	if(!cancelled) { /* the sender acts after the receiver finished */
		cancelled = true;
		struct lp_ctx *cur = current_lp;
		send_anti_messages(&L[0].p, 0);
		current_lp = cur;
	}
	bool executed = false;
	for(unsigned k = disp0; k < MAXD; k++)
		if(k < n_disp && disp[k].t == b->dest_t && disp[k].type == b->m_type && hist_at(array_count(LP->p.p_msgs) ? array_count(LP->p.p_msgs) - 1 : 0) == b)
			executed = true;
	bool in_hist = array_count(LP->p.p_msgs) && hist_at(array_count(LP->p.p_msgs) - 1) == b;
	/* exactly one of the two legal outcomes */
	bool dropped = fr[bi] == 1 && !in_hist && ins[bi] == 0;
	bool pending_anti = in_hist && fr[bi] == 0 && ins[bi] == 1 && b->raw_flags == (MSG_FLAG_ANTI | MSG_FLAG_PROCESSED);
	VERIF_ASSERT(dropped != pending_anti, "race: the cancelled buffer is either dropped before execution (released once, never queued again) or executed and then queued exactly once as its own anti-message - never both, never neither");
	VERIF_ASSERT(!dropped || !executed || !in_hist, "race: a dropped buffer is not part of the history");
	VERIF_ASSERT(array_count(L[0].p.p_msgs) == 0 && (e->raw_flags & MSG_FLAG_PROCESSED) == 0 && ins[NEW0 + 1] == 1, "race: the sender's undone event is re-queued once and its history emptied");
	VERIF_ASSERT(sender_rmw <= 2 && recv_rmw >= 1, "race: each side touches the flag word of a buffer with one read-modify-write per operation");
	(void)strag;
	VERIF_WITNESS("race end reachable");
	if(during && dropped)
		VERIF_WITNESS("race: cancel lands before the receiver's read-modify-write (dropped) reachable");
	if(during && pending_anti)
		VERIF_WITNESS("race: cancel lands after the receiver's read-modify-write (executed, anti pending) reachable");
}
#endif

/* ---------------- LP life cycle in process.c ---------------- */
void harness_lp_fini(void)
{
	mk_history(true);
	uint32_t f0[H];
	for(unsigned k = 0; k < H; k++)
		f0[k] = M[k]->raw_flags;
	/* remote events in the history carry an id instead of small flags: they are released too */
	process_lp_fini(LP);
	VERIF_ASSERT(n_disp == 1 && disp[0].type == LP_FINI && disp[0].me == 1 && disp[0].st == LP->state_pointer && disp[0].size == 0, "fini: LP_FINI is dispatched exactly once, with the LP's state");
	for(unsigned k = 0; k < H; k++) {
		if(k >= n_hist)
			continue;
		if(kind[k] == 1)
			VERIF_ASSERT(!fr[k], "fini: a locally sent buffer belongs to its receiver and is not released by the sender");
		else if(kind[k] == 2)
			VERIF_ASSERT(fr[k] == 1, "fini: a remotely sent buffer is released exactly once");
		else
			VERIF_ASSERT(fr[k] == ((f0[k] & MSG_FLAG_ANTI) ? 0U : 1U), "fini: a processed event is released exactly once, unless its sender cancelled it (then the queued anti-message copy is released by the queue)");
		VERIF_ASSERT(!ins[k] && !ranti[k], "fini: nothing is queued or sent at shutdown");
	}
	VERIF_ASSERT(unknown_ops == 0, "fini: no other buffer is touched");
	VERIF_WITNESS("lp fini end reachable");
}

void harness_lp_init(void)
{
	mk_history(true); /* only for the environment set-up; the LP starts from scratch */
	model_sends = vin_upto(NNEW - 1); /* one fresh buffer is the LP_INIT event itself */
	send_dest = vin_upto(1);
	LP->auto_ckpt.ckpt_interval = 1 + vin_upto(2);
	process_lp_init(LP);
	unsigned cnt = array_count(LP->p.p_msgs);
	VERIF_ASSERT(n_disp == 1 && disp[0].type == LP_INIT && disp[0].me == 1 && disp[0].t == 0.0 && disp[0].size == 0, "init: LP_INIT is dispatched exactly once, at time 0");
	VERIF_ASSERT(cnt == model_sends + 1 && !is_msg_sent(hist_at(cnt - 1)) && (hist_at(cnt - 1)->raw_flags & MSG_FLAG_PROCESSED) && hist_at(cnt - 1)->m_type == LP_INIT,
	    "init: the history starts with the events scheduled at LP_INIT followed by the LP_INIT event itself, marked processed");
	for(unsigned k = 0; k < NNEW; k++)
		if(k < model_sends)
			VERIF_ASSERT(is_msg_local_sent(hist_at(k)) && ins[idx_of(unmark_msg(hist_at(k)))] == 1, "init: events scheduled at LP_INIT are queued exactly once and recorded as sent");
	VERIF_ASSERT(n_take == 1 && take_ref == cnt, "init: the first checkpoint is taken right after LP_INIT, so every later rollback finds one");
	VERIF_ASSERT(LP->p.bound == 0.0 && LP->p.early_antis == NULL && current_lp == LP, "init: time bound 0, no early anti-messages");
	VERIF_WITNESS("lp init end reachable");
}
