/* C02 (M2): the MPI send / receive path moves a remote event, its
 * anti-message and control messages across the wire intact.  Real code:
 * distributed/mpi.c (mpi_remote_msg_send, mpi_remote_anti_msg_send,
 * mpi_control_msg_send_to, mpi_remote_msg_handle, mpi_remote_msg_drain)
 * compiled against a stub <mpi.h>; gvt.h stamping; mm/msg_allocator.c.
 * The wire is a harness model: one message in flight, delivered as sent
 * (MPI guarantees content; ordering/delay are not the subject here). */
#include "env.h"
#include <stdlib.h>
#include <string.h>
#include <distributed/mpi.c>
#include <mm/msg_allocator.c>

struct simulation_configuration global_config;
__thread rid_t rid;
nid_t n_nodes = 2, nid;
uint64_t lid_node_first;
lp_id_t n_lps_node;
__thread _Bool gvt_phase;
__thread uint32_t remote_msg_seq[2][MAX_NODES];
__thread uint32_t remote_msg_received[2];

#define WMAX 128
static unsigned char wire[WMAX];
static int wire_len, wire_dest, wire_pending, sends;
int MPI_Isend(const void *buf, int count, MPI_Datatype t, int dest, int tag, MPI_Comm c, MPI_Request *r)
{
	(void)t; (void)tag; (void)c; (void)r;
	VERIF_ASSERT(count >= 0 && count <= WMAX && !wire_pending, "harness wire large enough");
	for(int i = 0; i < WMAX; i++)
		if(i < count)
			wire[i] = ((const unsigned char *)buf)[i]; /* reading count bytes from the send buffer is bounds-checked */
	wire_len = count;
	wire_dest = dest;
	wire_pending = 1;
	sends++;
	return 0;
}
int MPI_Request_free(MPI_Request *r) { (void)r; return 0; }
int MPI_Improbe(int src, int tag, MPI_Comm c, int *flag, MPI_Message *m, MPI_Status *st)
{
	(void)src; (void)tag; (void)c; (void)m;
	*flag = wire_pending && wire_dest == nid;
	if(*flag)
		st->_count = wire_len;
	return 0;
}
int MPI_Get_count(const MPI_Status *st, MPI_Datatype t, int *cnt)
{
	(void)t;
	*cnt = st->_count;
	return 0;
}
int MPI_Mrecv(void *buf, int count, MPI_Datatype t, MPI_Message *m, MPI_Status *st)
{
	(void)t; (void)m; (void)st;
	VERIF_ASSERT(count == wire_len, "the receiver asks for exactly the bytes that were sent");
	for(int i = 0; i < WMAX; i++)
		if(i < count)
			((unsigned char *)buf)[i] = wire[i]; /* writing count bytes into the receive buffer is bounds-checked */
	wire_pending = 0;
	return 0;
}

static struct lp_msg *queued;
static unsigned n_queued;
void msg_queue_insert(struct lp_msg *m)
{
	queued = m;
	n_queued++;
}
static unsigned n_ctrl;
static enum msg_ctrl_code last_ctrl;
void control_msg_process(enum msg_ctrl_code c)
{
	n_ctrl++;
	last_ctrl = c;
}

#ifndef PSZ
#define PSZ 5
#endif
void harness(void)
{
	msg_allocator_init();
	unsigned char pay[PSZ + 1];
	vin_bytes(pay, PSZ + 1);
	lp_id_t dest_lp = vin_u64();
	simtime_t t = vin_time();
	unsigned type = vin_u32();
	/* sender: rank 0, any thread, any colour */
	nid = 0;
	rid = vin_upto(MAX_THREADS - 1);
	gvt_phase = vin_bool();
	bool colour_s = gvt_phase;
	remote_msg_seq[gvt_phase][1] = vin_u32() & 0xffff;
	struct lp_msg *m = msg_allocator_pack(dest_lp, t, type, pay, PSZ);
	mpi_remote_msg_send(m, 1);
	VERIF_ASSERT(sends == 1 && wire_dest == 1 && wire_len == (int)(offsetof(struct lp_msg, pl) - offsetof(struct lp_msg, dest) + PSZ), "one MPI message of header + payload bytes goes to the destination rank");
	uint32_t id = m->raw_flags & ~(uint32_t)3, seq = m->m_seq;
	/* receiver: rank 1 */
	nid = 1;
	rid = vin_upto(MAX_THREADS - 1);
	gvt_phase = vin_bool();
	uint32_t rc0 = remote_msg_received[colour_s];
	mpi_remote_msg_handle();
	VERIF_ASSERT(n_queued == 1 && !wire_pending, "the event is received and queued exactly once");
	struct lp_msg *r = queued;
	VERIF_ASSERT(r != m && r->dest == dest_lp && r->dest_t == t && r->m_type == type && r->pl_size == PSZ, "destination, timestamp, type and payload size arrive intact");
	unsigned w = vin_upto(PSZ);
	if(w < PSZ)
		VERIF_ASSERT(r->pl[w] == pay[w], "every payload byte arrives intact (inline and extended part)");
	VERIF_ASSERT((r->raw_flags & ~(uint32_t)3) == id && r->m_seq == seq && (r->raw_flags & 3U) == 0 && r->raw_flags > 3U, "the event keeps its id and looks fresh");
	VERIF_ASSERT(remote_msg_received[colour_s] == rc0 + 1, "it is counted as received under the sender's colour");
	/* the sender cancels it */
	nid = 0;
	gvt_phase = vin_bool();
	bool colour_c = gvt_phase;
	n_queued = 0;
	mpi_remote_anti_msg_send(m, 1);
	VERIF_ASSERT(sends == 2 && wire_len == (int)msg_remote_anti_size() && wire_len < (int)(offsetof(struct lp_msg, pl) - offsetof(struct lp_msg, dest)), "the anti-message is a short header-only MPI message, distinguishable by its size from any event");
	nid = 1;
	uint32_t rc1 = remote_msg_received[colour_c];
	mpi_remote_msg_handle();
	VERIF_ASSERT(n_queued == 1 && queued != r, "the anti-message is received into its own buffer and queued exactly once");
	struct lp_msg *a = queued;
	VERIF_ASSERT(a->dest == dest_lp && a->dest_t == t && (a->raw_flags & ~(uint32_t)3) == id && a->m_seq == seq && (a->raw_flags & 3U) == MSG_FLAG_ANTI,
	    "the anti-message reaches the same LP at the same timestamp with the id of the event it cancels");
	VERIF_ASSERT(a->pl_size == 0 && a->m_type == 0, "its tie-break fields are initialised (no read of uninitialised data)");
	VERIF_ASSERT(msg_is_before(a, r) || a->dest_t != r->dest_t, "at equal timestamps the anti-message is ordered before the event");
	VERIF_ASSERT(remote_msg_received[colour_c] == rc1 + 1, "it is counted under the colour at cancel time");
	/* a control message */
	nid = 0;
	enum msg_ctrl_code code = 1 + vin_upto(2);
	mpi_control_msg_send_to(code, 1);
	VERIF_ASSERT(wire_len == (int)sizeof(enum msg_ctrl_code), "a control message is 4 bytes on the wire");
	nid = 1;
	n_queued = 0;
	mpi_remote_msg_handle();
	VERIF_ASSERT(n_ctrl == 1 && last_ctrl == code && n_queued == 0, "a control message is dispatched to its handler and never queued as an event");
	/* drain at shutdown: messages still in flight are received, counted and discarded without overflow */
	nid = 0;
	gvt_phase = colour_s;
	struct lp_msg *m2 = msg_allocator_pack(dest_lp, t, type, pay, PSZ);
	mpi_remote_msg_send(m2, 1);
	nid = 1;
	uint32_t rc2 = remote_msg_received[colour_s];
	mpi_remote_msg_drain();
	VERIF_ASSERT(!wire_pending && remote_msg_received[colour_s] == rc2 + 1 && n_queued == 0, "drain consumes and counts an in-flight event without queueing it");
	VERIF_WITNESS("mpi end reachable");
}
