/* C15: the inter-thread message queue loses nothing and its peek is a lower
 * bound.  Real code: datatypes/msg_queue.c (+ heap.h, array.h), compiled
 * against the yield-point <stdatomic.h> of stubs_rg: the thread under test is
 * interrupted before each of its atomic steps by whole real operations of the
 * other threads (solver-chosen). */
#define VERIF_NO_REALLOC
#include "env.h"
#include <stdlib.h>
#include <datatypes/msg_queue.c>

struct simulation_configuration global_config;
__thread rid_t rid;
nid_t n_nodes = 1, nid;
uint64_t lid_node_first;
lp_id_t n_lps_node;
unsigned verif_rmw_count;
static unsigned freed_cnt;
void msg_allocator_free(struct lp_msg *m)
{
	(void)m;
	freed_cnt++;
}

#ifndef NM
#define NM 3
#endif
static struct lp_msg *P[NM];
static unsigned state[NM]; /* 0 not yet inserted, 1 insert completed, 2 extracted */
static unsigned depth;
static unsigned mode; /* 1: consumer under test, producers interfere; 2: producer under test */
static unsigned interferences;

static void account_extract(struct lp_msg *m, const bool *before)
{
	if(!m)
		return;
	unsigned k;
	for(k = 0; k < NM; k++)
		if(P[k] == m)
			break;
	VERIF_ASSERT(k < NM && state[k] == 1, "an extracted message was inserted for this thread and not extracted before");
	if(k < NM) {
		if(before)
			for(unsigned j = 0; j < NM; j++)
				if(before[j] && j != k)
					VERIF_ASSERT(!msg_is_before(P[j], m), "extract returns a smallest event among those already transferred to the thread");
		state[k] = 2;
	}
}

void verif_yield(void)
{
	if(depth)
		return;
	depth++;
	if(mode == 1) { /* producers: whole real inserts of not-yet-inserted messages */
		for(unsigned k = 0; k < NM; k++)
			if(state[k] == 0 && vin_bool()) {
				rid_t me = rid;
				rid = 1;
				msg_queue_insert(P[k]);
				rid = me;
				state[k] = 1;
				interferences++;
			}
	} else if(mode == 2) { /* other producers insert, the consumer extracts */
		for(unsigned k = 1; k < NM; k++)
			if(state[k] == 0 && vin_bool()) {
				rid_t me = rid;
				rid = 2;
				msg_queue_insert(P[k]);
				rid = me;
				state[k] = 1;
				interferences++;
			}
		if(vin_bool()) {
			rid_t me = rid;
			rid = 0;
			account_extract(msg_queue_extract(), NULL);
			rid = me;
			interferences++;
		}
	}
	depth--;
}

static void setup(void)
{
	global_config.n_threads = 2;
	global_config.lps = 2;
	n_lps_node = 2;
	lid_node_first = 0;
	msg_queue_global_init();
	for(unsigned k = 0; k < NM; k++) {
		P[k] = malloc(sizeof(struct lp_msg));
		VERIF_ASSUME(P[k] != NULL);
		P[k]->dest = 0; /* hosted by thread 0 */
		P[k]->dest_t = vin_time();
		VERIF_ASSUME(P[k]->dest_t >= 0.0 && P[k]->dest_t < SIMTIME_MAX);
		P[k]->pl_size = 0;
		P[k]->raw_flags = vin_u32() & 1; /* cancelled entries included */
		P[k]->m_type = vin_u32() & 3;
	}
	depth = 1;
	rid = 1;
	msg_queue_init();
	rid = 0;
	msg_queue_init();
	depth = 0;
}

static void drain_and_check(void)
{
	depth = 1; /* quiescence: remaining producers finish, then the consumer drains */
	for(unsigned k = 0; k < NM; k++)
		if(state[k] == 0) {
			rid = 1;
			msg_queue_insert(P[k]);
			rid = 0;
			state[k] = 1;
		}
	rid = 0;
	for(unsigned i = 0; i < NM; i++)
		account_extract(msg_queue_extract(), NULL);
	for(unsigned k = 0; k < NM; k++)
		VERIF_ASSERT(state[k] == 2, "every inserted message is extracted exactly once");
	VERIF_ASSERT(msg_queue_extract() == NULL && msg_queue_time_peek() == SIMTIME_MAX, "afterwards the queue is empty");
}

void harness_consumer(void)
{
	setup();
	mode = 1;
	for(unsigned round = 0; round < 2; round++) {
		bool before[NM];
		bool any = false;
		for(unsigned k = 0; k < NM; k++) {
			before[k] = state[k] == 1;
			any = any || before[k];
		}
		verif_yield(); /* producers also run between the consumer's operations, not only at its atomic steps */
		for(unsigned k = 0; k < NM; k++) {
			before[k] = state[k] == 1;
			any = any || before[k];
		}
		simtime_t pk = msg_queue_time_peek();
		for(unsigned k = 0; k < NM; k++)
			if(before[k])
				VERIF_ASSERT(pk <= P[k]->dest_t, "the minimum-time query is not larger than any event inserted before the query began and not yet extracted");
		for(unsigned k = 0; k < NM; k++) {
			before[k] = state[k] == 1;
			any = any || before[k];
		}
		verif_yield();
		for(unsigned k = 0; k < NM; k++) {
			before[k] = state[k] == 1;
			any = any || before[k];
		}
		struct lp_msg *m = msg_queue_extract();
		if(any)
			VERIF_ASSERT(m != NULL, "extract returns an event when one was inserted before it began");
		account_extract(m, before);
	}
	if(interferences >= 2)
		VERIF_WITNESS("two interfering inserts reachable");
	drain_and_check();
	VERIF_WITNESS("consumer end reachable");
}

void harness_producer(void)
{
	setup();
	mode = 2;
	rid = 1;
	unsigned rmw0 = verif_rmw_count;
	msg_queue_insert(P[0]); /* under test: interrupted between its load and each CAS attempt */
	state[0] = 1;
	if(interferences == 0)
		VERIF_ASSERT(verif_rmw_count == rmw0 + 1, "an undisturbed insert performs exactly one read-modify-write");
	else
		VERIF_WITNESS("insert with interference (CAS retry) reachable");
	mode = 0;
	rid = 0;
	bool before[NM];
	for(unsigned k = 0; k < NM; k++)
		before[k] = state[k] == 1;
	simtime_t pk = msg_queue_time_peek();
	for(unsigned k = 0; k < NM; k++)
		if(before[k])
			VERIF_ASSERT(pk <= P[k]->dest_t, "peek after concurrent inserts is a lower bound");
	drain_and_check();
	VERIF_WITNESS("producer end reachable");
}
