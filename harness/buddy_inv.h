/* Representation invariant of one buddy arena (shared by C05/C12/C13 harnesses).
 * Written from the data-structure definition, not from the code paths:
 * node i covers 2^expo[i] bytes; longest[i] is the exponent of the largest
 * free block below i, 0 when the subtree is fully used.  A *live block* is a
 * node with longest 0 whose children are not both 0 (or a leaf with 0). */
#pragma once
#include <mm/buddy/buddy.h>

#define NNODES (1U << (B_TOTAL_EXP - B_BLOCK_EXP + 1)) /* array size; last entry unused */
#define NINT ((NNODES / 2) - 1)			       /* internal nodes 0..NINT-1 */
#define NLEAVES (NNODES / 2)
#define ARENA (1U << B_TOTAL_EXP)

static unsigned char expo[NNODES];
static void mk_expo(void)
{
	unsigned char e = B_TOTAL_EXP;
	for(unsigned i = 0; i < NNODES - 1; i++) {
		expo[i] = e;
		e -= !((i + 2) & (i + 1)); /* i + 2 is a power of two: next level */
	}
}

static bool buddy_inv(const struct buddy_state *s)
{
	bool ok = true;
	for(unsigned i = 0; i < NINT; i++) {
		unsigned char e = expo[i], v = s->longest[i], l = s->longest[2 * i + 1], r = s->longest[2 * i + 2];
		bool full = (l == e - 1 && r == e - 1);
		if(v == e)
			ok = ok && full;
		else if(v == 0)
			ok = ok && (full || (l == 0 && r == 0));
		else
			ok = ok && (v < e && v >= B_BLOCK_EXP && v == (l > r ? l : r) && !full);
	}
	for(unsigned i = NINT; i < NNODES - 1; i++) {
		unsigned char v = s->longest[i];
		ok = ok && (v == 0 || v == B_BLOCK_EXP);
	}
	return ok;
}

/* is node j the root of a live (allocated) block */
static bool buddy_is_live(const struct buddy_state *s, unsigned j)
{
	if(s->longest[j])
		return false;
	if(j >= NINT)
		return true;
	return s->longest[2 * j + 1] != 0 || s->longest[2 * j + 2] != 0;
}
/* under buddy_inv a live node has no live ancestor: below a live node every
 * node keeps the fully-free pattern (longest == expo), so "live" == "allocation root" */
#define buddy_is_root(s, j) buddy_is_live(s, j)
static unsigned buddy_off(unsigned j) { return ((j + 1) << expo[j]) - ARENA; }
static unsigned buddy_len(unsigned j) { return 1U << expo[j]; }

/* total bytes in live blocks (roots only) */
static unsigned buddy_live_bytes(const struct buddy_state *s)
{
	unsigned tot = 0;
	for(unsigned j = 0; j < NNODES - 1; j++)
		if(buddy_is_root(s, j))
			tot += buddy_len(j);
	return tot;
}
