/* C17: thread barrier.  Real code: core/sync.c:sync_thread_barrier under
 * CBMC's thread encoding (all interleavings at shared-access granularity,
 * sequential consistency; with --mm tso as a thorough extra).
 * The two spin-wait loops are unwound SPIN times; executions that need more
 * failed spin iterations are cut - a failed iteration only reads shared
 * memory, so every such execution is stutter-equivalent to an explored one. */
#define VERIF_NO_MAIN
#include "verif.h"
#include <core/sync.c>
#include <pthread.h>

struct simulation_configuration global_config;
__thread rid_t rid;

#ifndef NT
#define NT 2
#endif
#ifndef USES
#define USES 4
#endif

unsigned entered[USES], leaders[USES], left[USES];

static void *thr(void *arg)
{
	(void)arg;
	for(int k = 0; k < USES; k++) {
		__CPROVER_atomic_begin();
		entered[k]++;
		__CPROVER_atomic_end();
		_Bool l = sync_thread_barrier();
		__CPROVER_assert(entered[k] == NT, "nobody returns before every thread has entered this use");
		if(l) {
			__CPROVER_atomic_begin();
			leaders[k]++;
			__CPROVER_atomic_end();
		}
		__CPROVER_atomic_begin();
		left[k]++;
		__CPROVER_atomic_end();
	}
	return 0;
}

void harness(void)
{
	global_config.n_threads = NT;
	pthread_t t[NT];
	for(int i = 0; i < NT; i++)
		pthread_create(&t[i], 0, thr, 0);
	for(int i = 0; i < NT; i++)
		pthread_join(t[i], 0);
	for(int k = 0; k < USES; k++) {
		__CPROVER_assert(leaders[k] == 1, "exactly one leader per use");
		__CPROVER_assert(left[k] == NT, "every thread returned from every use");
	}
	__CPROVER_assert(0, "WITNESS all threads completed all uses");
}
