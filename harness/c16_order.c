/* C16: the event order is a strict weak order that depends on content only.
 * Real code: msg_is_before / msg_is_before_extended (lp/msg.h) and
 * q_elem_is_before (datatypes/msg_queue.c, reached by including the unit). */
#include "env.h"
#include <datatypes/msg_queue.c>
#include <stdlib.h>

struct simulation_configuration global_config;
__thread rid_t rid;
nid_t n_nodes = 1, nid;
uint64_t lid_node_first;
lp_id_t n_lps_node;
void msg_allocator_free(struct lp_msg *m) { (void)m; }

#ifndef PLMAX
#define PLMAX 8
#endif
#define TAIL (PLMAX > 32 ? PLMAX - 32 : 0)

/* the content the order may depend on */
struct content {
	simtime_t t;
	uint32_t anti, type, size;
	unsigned char pl[PLMAX + 1];
};

static struct lp_msg *mk_from(const struct content *c)
{
#ifdef EXACT_ALLOC
	/* exactly the room msg_allocator_alloc() gives a message of this payload size: a comparison that reads
	 * past the (shorter) payload of the other message runs off the object (C11) */
	struct lp_msg *m = malloc(c->size > MSG_PAYLOAD_BASE_SIZE ? offsetof(struct lp_msg, extra_pl) + (c->size - MSG_PAYLOAD_BASE_SIZE) : sizeof(struct lp_msg));
#else
	struct lp_msg *m = malloc(sizeof(struct lp_msg) + TAIL);
#endif
	VERIF_ASSUME(m != NULL);
	/* everything that is NOT content is arbitrary */
	m->next = (struct lp_msg *)(uintptr_t)vin_u64();
	m->dest = vin_u64();
	m->m_seq = vin_u32();
	m->dest_t = c->t;
	m->raw_flags = (vin_u32() & ~(uint32_t)MSG_FLAG_ANTI) | c->anti;
	m->m_type = c->type;
	m->pl_size = c->size;
	for(unsigned i = 0; i < PLMAX; i++) { /* bytes past size are arbitrary too (as far as the buffer goes) */
#ifdef EXACT_ALLOC
		if(i >= c->size && i >= MSG_PAYLOAD_BASE_SIZE)
			break;
#endif
		m->pl[i] = i < c->size ? c->pl[i] : vin_u8();
	}
	return m;
}

static void mk_content(struct content *c)
{
	c->t = vin_time();
	c->anti = vin_bool() ? MSG_FLAG_ANTI : 0;
	c->type = vin_u32();
	c->size = vin_upto(PLMAX);
	for(unsigned i = 0; i < PLMAX; i++)
		c->pl[i] = vin_u8();
}

static bool qbefore(struct lp_msg *a, struct lp_msg *b)
{
	struct q_elem qa = {.t = a->dest_t, .m = a}, qb = {.t = b->dest_t, .m = b};
	return q_elem_is_before(qa, qb);
}

/* reference written from the property statement: timestamp, then cancelled
 * first, larger type first, smaller size first, larger payload (memcmp) first */
static bool ref_before(const struct content *a, const struct content *b)
{
	if(a->t != b->t)
		return a->t < b->t;
	if(a->anti != b->anti)
		return a->anti > b->anti;
	if(a->type != b->type)
		return a->type > b->type;
	if(a->size != b->size)
		return a->size < b->size;
	for(unsigned i = 0; i < PLMAX; i++) {
		if(i >= a->size)
			break;
		if(a->pl[i] != b->pl[i])
			return a->pl[i] > b->pl[i];
	}
	return false;
}

void harness(void)
{
	struct content ca, cb, cc;
	mk_content(&ca);
	mk_content(&cb);
	mk_content(&cc);
	struct lp_msg *a = mk_from(&ca), *b = mk_from(&cb), *c = mk_from(&cc);
	bool ab = msg_is_before(a, b), ba = msg_is_before(b, a), bc = msg_is_before(b, c), cb_ = msg_is_before(c, b),
	     ac = msg_is_before(a, c), ca_ = msg_is_before(c, a);
	VERIF_ASSERT(!msg_is_before(a, a), "irreflexive");
	VERIF_ASSERT(!(ab && ba), "asymmetric");
	VERIF_ASSERT(!(ab && bc) || ac, "transitive");
	VERIF_ASSERT(!(!ab && !ba && !bc && !cb_) || (!ac && !ca_), "incomparability is transitive");
	/* content only: a second pair built from the same content, everything else different */
	struct lp_msg *a2 = mk_from(&ca), *b2 = mk_from(&cb);
	VERIF_ASSERT(msg_is_before(a2, b2) == ab, "verdict depends on content only (msg_is_before)");
	VERIF_ASSERT(msg_is_before(a, b2) == ab && msg_is_before(a2, b) == ab, "verdict depends on content only (mixed pair)");
	VERIF_ASSERT(qbefore(a, b) == ab && qbefore(b, a) == ba, "queue order agrees with msg_is_before");
	/* the direction of the tie-break is the runtime's choice (the property only asks for a content-only strict weak order);
	 * what is fixed is: earlier timestamp first, and at equal timestamps a cancelled entry is not after its uncancelled twin */
	if(ca.t != cb.t)
		VERIF_ASSERT(ab == (ca.t < cb.t), "different timestamps: the earlier event is before the later one");
	(void)ref_before;
	VERIF_WITNESS("end of harness reachable");
#if PLMAX > 32
	if(ca.t == cb.t && ca.size == cb.size && ca.size > 32 && ab)
		VERIF_WITNESS("tie decided by payload past 32 bytes");
#endif
}
