#!/usr/bin/env python3
"""Regenerate MANIFEST.json from specs.py (checks = properties that have queries)."""
import json, os, subprocess, sys
HERE = os.path.dirname(os.path.abspath(__file__))
sys.path.insert(0, HERE)
import specs

hook_commits = subprocess.run(["git", "-C", "/repo", "log", "--format=%h %s"], capture_output=True, text=True).stdout.splitlines()
hooks = [l.split()[0] for l in hook_commits if "verif hook" in l]

NA = {
    "C08": "liveness of the shutdown protocol over blocking spin loops: CBMC's thread encoding does not get through the full GVT/drain state machine (no verdict after 14-25 min in symbolic execution) and a sequential scheduler cannot be built around blocking calls and a function-scope static __thread phase variable; see DESIGN.md C08",
}
checks = []
for pid in sorted(specs.SPECS):
    sp = specs.SPECS[pid]
    if not sp.get("queries"):
        continue
    checks.append({
        "property_id": pid,
        "quick_cmd": "./check %s --tier quick" % pid,
        "thorough_cmd": "./check %s --tier thorough" % pid,
        "evidence_file": "/verif/evidence/%s.json" % pid,
        "replay_cmd_template": "./check %s --replay {path}" % pid,
        "engine": "cbmc",
        "level_claimed": {"category": sp.get("level", "model_checking"),
                          "text": sp.get("level_text", "bounded symbolic checking (CBMC) of the real translation units; see DESIGN.md"),
                          "design_ref": "DESIGN.md section 3, " + pid},
        "level_note": "; ".join(sp.get("assumptions", [])[:6]) or "see evidence assumptions",
        "technique": sp.get("technique", "bounded model checking of the real C code with CBMC (SAT/SMT verdict over all symbolic inputs within stated bounds)"),
    })
for pid in ["C%02d" % i for i in range(1, 21)]:
    if pid not in [c["property_id"] for c in checks] and pid not in NA:
        NA[pid] = specs.NOT_YET.get(pid, "no check built yet")
man = {
    "version": 1,
    "setup_cmd": "python3 -c 'import specs' && cbmc --version && goto-cc --version >/dev/null",
    "hooks": {"guard": "ROOT_SIM_CORE_VERIF",
              "enable": "goto-cc/gcc -DROOT_SIM_CORE_VERIF plus -DVERIF_B_TOTAL_EXP/-DVERIF_B_BLOCK_EXP (H1) or -DVERIF_MAX_NODES/-DVERIF_MAX_THREADS_EXP (H4); checks compile /repo/src directly, no library build needed",
              "baseline_off_cmd": "cmake --build /repo/_build && ctest --test-dir /repo/_build -j8 --timeout 900",
              "source_commits": hooks, "add_only": True},
    "engines": [{"name": "cbmc", "path": "/verif/check", "serves_properties": [c["property_id"] for c in checks],
                 "kind_free_text": "python driver: goto-cc builds harness + real sources from /repo's working tree, CBMC 6.11 (minisat/cadical/kissat/z3) decides, counterexamples replayed natively with gcc+ASan/UBSan"}],
    "checks": checks,
    "not_applicable": [{"property_id": k, "reason": v} for k, v in sorted(NA.items())],
    "notes": "Solver-based checking of the real code; every claim is bounded (see evidence). Known findings: known_findings.json. Seeded changes: seeded/.",
}
json.dump(man, open(os.path.join(HERE, "MANIFEST.json"), "w"), indent=1)
print("checks:", [c["property_id"] for c in checks], "n/a:", sorted(NA))
