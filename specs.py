"""Query table: property id -> harness queries (see check)."""

COMMON_ASSUMPTIONS = [
    "bounded: every claim holds only inside the bounds listed per query (unwinding assertions on)",
    "sequential consistency (C11 weak-memory reorderings outside every claim)",
    "allocation failure outside every claim (--no-malloc-may-fail; mm_alloc aborts on failure)",
    "stub <immintrin.h>/<x86intrin.h>: _mm_pause no-op, __rdtsc arbitrary value",
    "vlogger/printf have empty bodies; statistics calls are ignored unless the harness links stats.c",
    "build flags as the CMake build: -std=c11 -DNDEBUG, plus -DROOT_SIM_CORE_VERIF for hooks H1/H4",
]

SPECS = {}


def Q(name, harness, tier="quick", **kw):
    d = dict(name=name, harness=harness, tier=tier)
    d.update(kw)
    return d


SPECS["C16"] = dict(
    level="model_checking",
    encodes=["lp/msg.h:msg_is_before", "lp/msg.h:msg_is_before_extended", "datatypes/msg_queue.c:q_elem_is_before"],
    assumptions=["timestamps are not NaN (a model scheduling at NaN violates the API contract)"],
    outside=["payloads longer than the stated bound", "NaN timestamps"],
    queries=[
        Q("order_p36", "c16_order.c", defs={"PLMAX": 36}, unwind=38, bounds="3 arbitrary messages, payload size 0..36 (past the 32-byte inline payload), all flags/types/timestamps", timeout=600),
        Q("order_p40", "c16_order.c", tier="thorough", defs={"PLMAX": 40}, unwind=42, bounds="3 arbitrary messages, payload size 0..40 (past the 32-byte inline payload)", timeout=1200),
        Q("order_p64", "c16_order.c", tier="thorough", defs={"PLMAX": 64}, unwind=66, bounds="3 arbitrary messages, payload size 0..64", timeout=1800, solver="kissat"),
    ],
)

THREAD_FLAGS = ["--no-standard-checks", "--unwinding-assertions", "--bounds-check", "--signed-overflow-check",
                "--undefined-shift-check", "--div-by-zero-check"]
SPIN = ["sync_thread_barrier.0", "sync_thread_barrier.1"]


def c17(name, nt, uses, tier, spin=2, timeout=600, extra=None, solver="minisat"):
    return Q(name, "c17_barrier.c", tier=tier, defs={"NT": nt, "USES": uses}, unwind=max(uses, nt) + 1,
             unwindset={"sync_thread_barrier.0": spin, "sync_thread_barrier.1": spin}, spin_loops=SPIN,
             flags=THREAD_FLAGS + (extra or []), native=False, timeout=timeout, solver=solver,
             bounds="%d threads x %d consecutive barrier uses, all interleavings (SC%s); spin-wait loops unwound %d times, longer spins cut (stutter-equivalent)"
             % (nt, uses, ", and x86-TSO" if extra else "", spin), cost=uses * nt * nt)


SPECS["C17"] = dict(
    level="model_checking",
    encodes=["core/sync.c:sync_thread_barrier"],
    assumptions=["CBMC thread encoding (partial orders over shared accesses), pointer checks off for thread harnesses (CBMC refuses them under concurrency)",
                 "spin-wait cut: a failed spin iteration only reads shared memory, so executions with more failed iterations are stutter-equivalent to explored ones",
                 "counterexamples of thread harnesses are not replayed natively (the solver's interleaving is reported as trace)"],
    outside=["more than 3 threads", "more than 9 consecutive uses (periodicity of the 4-phase state is argued, not machine-checked)", "weak memory beyond x86-TSO"],
    queries=[
        c17("t2_u5", 2, 5, "quick"),
        c17("t2_u9", 2, 9, "thorough", timeout=1800),
        c17("t2_u5_tso", 2, 5, "thorough", extra=["--mm", "tso"], timeout=1800),
        c17("t3_u5", 3, 5, "thorough", timeout=2400),
        c17("t3_u2", 3, 2, "quick", timeout=600),
    ],
)


def c12(name, func, tier, tot, blk, unwind, timeout=600, **kw):
    return Q(name, "c12_buddy.c", tier=tier, func=func, defs={"VERIF_B_TOTAL_EXP": "%dU" % tot, "VERIF_B_BLOCK_EXP": "%dU" % blk},
             unwind=unwind, timeout=timeout,
             bounds="one real call from an arbitrary invariant-satisfying tree; arena 2^%d bytes, block 2^%d (%d leaves)" % (tot, blk, 1 << (tot - blk)), **kw)


SPECS["C12"] = dict(
    level="proof",
    encodes=["mm/buddy/buddy.c:buddy_init", "buddy_malloc", "buddy_free", "buddy_best_effort_realloc",
             "mm/buddy/multi.c:rs_malloc", "rs_calloc", "rs_realloc", "rs_free", "buddy_find_by_address"],
    assumptions=["arena geometry shrunk through hook H1 (the code is parametric in B_TOTAL_EXP/B_BLOCK_EXP); the real 64 KiB arena is outside the claim",
                 "inductive step: the pre-state is any tree satisfying the representation invariant in harness/buddy_inv.h; base case buddy_init"],
    outside=["the real 64 KiB / 64-byte geometry (1024 leaves: no verdict)", "more than 3 arenas"],
    queries=[
        c12("init_32", "harness_init", "quick", 11, 6, 66),
        c12("malloc_32", "harness_malloc", "quick", 11, 6, 66),
        c12("free_32", "harness_free", "quick", 11, 6, 66),
        c12("free_single_32", "harness_free_single", "quick", 11, 6, 66),
        c12("realloc_probe_32", "harness_realloc_probe", "quick", 11, 6, 66),
        c12("malloc_64", "harness_malloc", "thorough", 12, 6, 130, timeout=1800),
        c12("free_64", "harness_free", "thorough", 12, 6, 130, timeout=1800),
        c12("malloc_16x32", "harness_malloc", "thorough", 9, 5, 34, timeout=900),
        c12("free_16x32", "harness_free", "thorough", 9, 5, 34, timeout=900),
    ],
)


def c14(name, func, tier, maxlp, maxn, cn=None, ct=None, timeout=600, **kw):
    defs = {"MAXLP": maxlp, "MAXN": maxn}
    b = "LPs <= %d, ranks/threads <= %d" % (maxlp, maxn)
    if cn is not None:
        defs["CN"] = cn
        b += ", ranks = %d" % cn
    if ct is not None:
        defs["CT"] = ct
        b += ", threads = %d" % ct
    return Q(name, "c14_partition.c", tier=tier, func=func, defs=defs, unwind=(2 * maxlp + 4) if func == "harness_thread" else maxlp + 2, timeout=timeout,
             bounds=b + "; all other values symbolic", **kw)


SPECS["C14"] = dict(
    level="model_checking",
    encodes=["lp/lp.c:partition_start", "lp/lp.h:lid_to_nid", "lid_to_rid", "lp/lp.c:lp_init", "lp_fini", "lp_global_init (arithmetic)"],
    assumptions=["ranks <= LPs (a rank without LPs is outside the documented use)", "lp*n_nodes does not overflow 64 bits",
                 "lifecycle harness: per-LP constructors are recording stubs; the lps base pointer is not shifted (the real code forms lps - lid_node_first)"],
    outside=["more than 64 LPs (symbolic 64-bit multiply-then-divide: no verdict beyond)", "ranks > LPs"],
    queries=[
        c14("node_16_4", "harness_node", "quick", 16, 4, cost=3),
        c14("thread_8_t2", "harness_thread", "quick", 8, 4, ct=2, cost=3),
        c14("thread_8_t3", "harness_thread", "quick", 8, 4, ct=3, cost=5),
        c14("thread_8_t4", "harness_thread", "quick", 8, 4, ct=4, cost=6),
        c14("thread_8_t1", "harness_thread", "quick", 8, 4, ct=1),
        c14("thread_16_t3", "harness_thread", "thorough", 16, 4, ct=3, timeout=1800),
        c14("thread_16_t4", "harness_thread", "thorough", 16, 4, ct=4, timeout=1800),
        c14("life_5_n2t2", "harness_lifecycle", "quick", 5, 4, cn=2, ct=2, cost=6),
        c14("life_8_n2t3", "harness_lifecycle", "thorough", 8, 4, cn=2, ct=3, timeout=1800, mem_gb=20),
        c14("life_8_n1t2", "harness_lifecycle", "thorough", 8, 4, cn=1, ct=2, timeout=1800, mem_gb=20),
        c14("life_8_n3t2", "harness_lifecycle", "thorough", 8, 4, cn=3, ct=2, timeout=1800, mem_gb=20),
    ] + [c14("node_64_n%d" % n, "harness_node", "thorough", 64, 8, cn=n, timeout=1800, solver="kissat") for n in range(1, 9)]
      + [c14("thread_12_t%d" % t, "harness_thread", "thorough", 12, 8, ct=t, timeout=1800) for t in range(5, 9)],
)


def c18(name, func, tier, defs=None, contract=False, timeout=600, solver="minisat", spin=None, **kw):
    d = dict(defs or {})
    q = Q(name, "c18_random.c", tier=tier, func=func, defs=d, unwind=7, timeout=timeout, solver=solver, **kw)
    if contract:
        q["instrument"] = ["--replace-calls", "Random:Random_contract"]
        q["native"] = False
    if spin:
        q["spin_loops"] = spin
    return q


SPECS["C18"] = dict(
    level="model_checking",
    encodes=["lib/random/random.c:Random", "RandomU64", "RandomRange", "RandomRangeNonUniform", "Poisson", "Gamma", "Zipf",
             "lib/random/xoroshiro.h:random_u64"],
    assumptions=["libm log/exp/pow are contract stubs (range/sign/monotonicity facts of IEEE libm); floor/sqrt are CBMC built-ins",
                 "Poisson/Gamma/Zipf harnesses link a contract stub of Random() (value in [0, 1-2^-53], generator advanced) discharged by the Random() query itself",
                 "rejection loops (Gamma ia>=6, Zipf) are unwound once: only accepted samples are checked, rejecting paths are cut",
                 "documented argument domain: 0 <= min <= max, range width below the stated bound, x >= 0, skew in (1,64], limit >= 1, 0 <= mean <= 1e300"],
    outside=["RandomRange widths >= 2^16 (no verdict)", "Gamma(ia >= 6) (no verdict within budget)", "Normal()", "statistical quality", "negative min"],
    queries=[
        c18("random", "harness_random", "quick", bounds="all 2^256 generator states (raw output over all 2^64 values)", cost=3),
        c18("u64", "harness_u64", "quick", bounds="all 2^256 generator states"),
        c18("range_w1024", "harness_range", "quick", defs={"RANGE_W": 1024}, bounds="all generator states, 0 <= min <= max, max-min < 2^10", cost=3),
        c18("range_nu_w256", "harness_range_nu", "quick", defs={"RANGE_W": 256}, bounds="all generator states, x < 2^8, 0 <= min <= max, max-min < 2^8", cost=3),
        c18("poisson", "harness_poisson", "quick", contract=True, bounds="all generator states; Random() by contract; 0 <= mean <= 1e300"),
        c18("gamma_le1", "harness_gamma_small", "quick", defs={"GAMMA_MAX": 1}, contract=True, solver="cadical", bounds="Gamma(ia), ia <= 1; Random() by contract", cost=4),
        c18("gamma_le5", "harness_gamma_small", "thorough", defs={"GAMMA_MAX": 5}, contract=True, solver="cadical", timeout=2400, mem_gb=12, bounds="Gamma(ia), ia <= 5; Random() by contract", replaces="gamma_le1"),
        c18("zipf", "harness_zipf", "quick", contract=True, solver="cadical", spin=["Zipf.0"], bounds="1 < skew <= 64, limit >= 1, first accepted sample; Random() by contract", cost=6),
        c18("range_w65536", "harness_range", "thorough", defs={"RANGE_W": 65536}, solver="kissat", timeout=2400, bounds="all generator states, max-min < 2^16"),
        c18("range_nu_w1024", "harness_range_nu", "thorough", defs={"RANGE_W": 1024}, solver="kissat", timeout=2400, bounds="all generator states, x < 2^10, max-min < 2^10"),
    ],
)


def c07(name, func, tier, nl, k, timeout=600, **kw):
    return Q(name, "c07_termination.c", tier=tier, func=func, defs={"NL": nl, "K": k}, unwind=max(nl, k) + 2, timeout=timeout,
             bounds="%d LPs on one thread, %d arbitrary operations (forward event / rollback / GVT round) from the real initialisation; all timestamps >= 0 incl. 0 and ties, predicate results arbitrary" % (nl, k), **kw)


SPECS["C07"] = dict(
    level="model_checking",
    encodes=["gvt/termination.c:termination_global_init", "termination_lp_init", "termination_on_msg_process",
             "termination_on_lp_rollback", "termination_on_gvt"],
    assumptions=["operations arrive in a legal order: per-LP event times non-decreasing between rollbacks, nothing below a reported GVT (C04), a rollback at time t undoes the events not before t (ties count as undone)",
                 "the model predicate is an arbitrary boolean per evaluation; MPI broadcast is a recording stub"],
    outside=["multi-rank vote collection", "RootsimStop", "the liveness half (C08)"],
    queries=[
        c07("run_3lp_5ops", "harness_run", "quick", 3, 5),
        c07("run_2lp_6ops", "harness_run", "thorough", 2, 6, timeout=2400),
        c07("run_3lp_6ops", "harness_run", "thorough", 3, 6, timeout=2400),
    ],
)

VISIT_US = {"checkpoint_full_take.0": 34, "checkpoint_full_take.1": 34, "checkpoint_full_restore.0": 34, "checkpoint_full_restore.1": 34,
            "harness_visit.0": 34, "harness_visit.1": 34}


def c05(name, func, tier, tot, blk, harness="c05_ckpt.c", timeout=900, defs=None, **kw):
    d = {"VERIF_B_TOTAL_EXP": "%dU" % tot, "VERIF_B_BLOCK_EXP": "%dU" % blk}
    d.update(defs or {})
    leaves = 1 << (tot - blk)
    us = {k: 2 * (2 * leaves) + 2 for k in VISIT_US}
    if harness != "c05_ckpt.c":
        us = {}
    us.update(kw.pop("unwindset_extra", {}))
    return Q(name, harness, tier=tier, func=func, defs=d, unwind=max(1 << tot, 2 * leaves) + 2, unwindset=us,
             timeout=timeout, bounds=kw.pop("bounds", "arena of %d leaves x %d-byte blocks, arbitrary invariant-satisfying tree and arbitrary memory content" % (leaves, 1 << blk)), **kw)


MASKS = [(at, now) for now in range(1, 8) for at in range(0, 8) if (at & now) == at]
SPECS["C05"] = dict(
    level="proof",
    encodes=["mm/buddy/ckpt.c:buddy_tree_visit", "checkpoint_full_take", "checkpoint_full_restore",
             "mm/buddy/multi.c:model_allocator_checkpoint_take", "model_allocator_checkpoint_restore", "model_allocator_lp_init",
             "lp/process.c:do_rollback", "silent_execution", "lib/random/random.c (generator context in rollbackable memory)"],
    assumptions=["arena geometry shrunk through hook H1 (8 or 16 leaves; the code is parametric in both exponents)",
                 "multi-arena harness: per-arena checkpoint_full_take/restore are contract stubs (discharged by the take/restore/roundtrip queries on arbitrary trees); arenas have concrete shapes per query, the driver enumerates every (arenas at checkpoint, arenas at rollback) combination of up to 3 arenas",
                 "harness allocator hands out fixed-size chunks and records the requested size (no symbolic-size objects)",
                 "memcpy/memmove/memset are byte-loop models"],
    outside=["the real 64 KiB geometry", "more than 3 arenas", "incremental checkpointing (disabled in the code base)"],
    queries=[
        c05("visit_8", "harness_visit", "quick", 5, 2),
        c05("visit_16", "harness_visit", "thorough", 6, 2, timeout=1800),
        c05("take_8", "harness_take", "quick", 4, 1, cost=5),
        c05("restore_8", "harness_restore", "quick", 4, 1, cost=5),
        c05("foreign_8", "harness_foreign", "quick", 4, 1),
        c05("roundtrip_8x2", "harness_roundtrip", "thorough", 4, 1, timeout=2400, mem_gb=20),
        c05("roundtrip_8x4", "harness_roundtrip", "thorough", 5, 2, timeout=3000, mem_gb=24),
        c05("log_4", "harness_log", "quick", 4, 1, harness="c05_multi.c", unwindset_extra={"memmove.0": 70, "memmove.1": 70}, bounds="checkpoint log of <= 4 entries with arbitrary increasing positions, arbitrary rollback target / committed frontier"),
    ] + [c05("multi_at%d_now%d" % (at, now), "harness_restore", "quick", 4, 1, harness="c05_multi.c", defs={"ATCK": at, "NOW": now},
             bounds="arenas at checkpoint = mask %d, arenas at rollback = mask %d (of 3, ascending addresses), up to 2 newer checkpoints, arbitrary target" % (at, now))
         for (at, now) in MASKS],
)

# properties whose check is not built yet (kept current; moved to SPECS as they are built)
NOT_YET = {}

SPECS["C13"] = dict(
    level="proof",
    encodes=["gvt/fossil.c:fossil_lp_collect", "fossil_on_gvt", "mm/buddy/multi.c:model_allocator_fossil_lp_collect", "model_allocator_checkpoint_restore (log walk)", "datatypes/array.h:array_truncate_first"],
    assumptions=["inductive step over an arbitrary history satisfying the structural invariant: processed events in timestamp order, newest entry a processed event, checkpoint positions strictly increasing, each right after a processed event, the oldest not after the first processed event",
                 "the per-arena state part of a rollback is C05; msg_allocator_free is a recording stub"],
    outside=["histories longer than the bound", "incremental checkpoints"],
    queries=[
        Q("fossil_h6", "c13_fossil.c", defs={"H": 6}, unwind=8, unwindset={"memmove.0": 50, "memmove.1": 50, "memcpy.0": 50}, timeout=900,
          bounds="history <= 6 entries (processed / local-sent / remote-sent), <= 3 checkpoints, arbitrary GVT, arbitrary later rollback target", cost=5),
        c05("log_4", "harness_log", "quick", 4, 1, harness="c05_multi.c", unwindset_extra={"memmove.0": 70, "memmove.1": 70}, bounds="checkpoint log of <= 4 entries, arbitrary committed frontier, then an arbitrary rollback"),
        Q("fossil_h8", "c13_fossil.c", tier="thorough", defs={"H": 8}, unwind=10, unwindset={"memmove.0": 66, "memmove.1": 66, "memcpy.0": 66}, timeout=2400,
          bounds="history <= 8 entries, <= 3 checkpoints", replaces="fossil_h6"),
    ],
)


def c12m(name, func, tier, na, tot, blk, timeout=900, defs=None, **kw):
    d = {"NA": na, "VERIF_B_TOTAL_EXP": "%dU" % tot, "VERIF_B_BLOCK_EXP": "%dU" % blk}
    d.update(defs or {})
    return Q(name, "c12_multi.c", tier=tier, func=func, defs=d, unwind=max(18, (1 << tot) + 2), timeout=timeout, mem_gb=20,
             bounds="one real call from an arbitrary state of <= %d arenas (%d leaves x %d bytes each, arbitrary invariant-satisfying trees, any address order), arbitrary 64-bit request size" % (na, 1 << (tot - blk), 1 << blk), **kw)


SPECS["C12"]["queries"] += [
    c12m("rs_malloc_a2", "harness_malloc", "quick", 2, 4, 1, cost=6),
    c12m("rs_free_a2", "harness_free", "quick", 2, 4, 1, cost=3),
    c12m("rs_realloc_a2", "harness_realloc", "quick", 2, 4, 1, cost=9),
    c12m("rs_realloc_null_a2", "harness_realloc_null", "quick", 2, 4, 1, cost=6),
    c12m("rs_calloc_a2", "harness_calloc", "quick", 2, 4, 1, cost=6),
    c12m("rs_calloc_x3_a2", "harness_calloc", "quick", 2, 4, 1, defs={"CALLOC_SIZE": 3}, cost=6),
    c12m("rs_malloc_a3", "harness_malloc", "thorough", 3, 4, 1, timeout=2400),
    c12m("rs_free_a3", "harness_free", "thorough", 3, 4, 1, timeout=2400),
    c12m("rs_realloc_a3", "harness_realloc", "thorough", 3, 4, 1, timeout=3000),
]


def heapq(name, inst, n, tier, timeout=1200, **kw):
    return Q(name, "c10_heap.c", tier=tier, defs={"INST": inst, "N": n}, unwind=n + 3, solver="kissat", timeout=timeout,
             bounds="one heap_insert or heap_extract on an arbitrary heap of <= %d elements (%s), arbitrary timestamps incl. ties, flags, types, payload <= 2 bytes" % (n - 1, "q_elem / q_elem_is_before" if inst == 1 else "lp_msg* / msg_is_before"), **kw)


SPECS["C10"] = dict(
    level="model_checking",
    encodes=["datatypes/heap.h:heap_insert", "heap_extract", "serial/serial.c:serial_simulation_init", "serial_simulation_run", "serial_simulation_fini", "ScheduleNewEvent_serial", "lp/msg.h:msg_is_before"],
    assumptions=["heap induction: pre-state is any array satisfying the heap property; dynamic-array growth is cut (proved unreachable inside the bound)"],
    outside=["heaps above the stated size (the sift loops are size-parametric, checked up to depth 3)"],
    queries=[
        heapq("heap_msg_n5", 2, 5, "quick", cost=5),
        heapq("heap_msg_n7", 2, 7, "thorough", timeout=3000, replaces="heap_msg_n5"),
    ],
)
SPECS["C15"] = dict(
    level="model_checking",
    encodes=["datatypes/msg_queue.c:msg_queue_insert", "msg_queue_extract", "msg_queue_time_peek", "msg_queue_insert_queued", "msg_queue_init", "datatypes/heap.h:heap_insert", "heap_extract"],
    assumptions=["sequential rely/guarantee encoding: the thread under test is interrupted at every atomic operation by whole real operations of the other threads (CBMC refuses shared pointer writes under its thread encoding); cross interleavings of two multi-step operations are covered by the mover argument in DESIGN.md 2.4",
                 "stub <stdatomic.h>: every atomic operation is one sequentially consistent step preceded by a yield point"],
    outside=["more than 2 producers / 3 messages", "weak memory"],
    queries=[
        heapq("heap_q_n5", 1, 5, "quick", cost=5),
        heapq("heap_q_n7", 1, 7, "thorough", timeout=3000, replaces="heap_q_n5"),
    ],
)

SPECS["C15"]["queries"] += [
    Q("consumer_m3", "c15_queue.c", func="harness_consumer", defs={"NM": 3}, stubdirs=["stubs_rg"], unwind=5, timeout=1200, cost=8,
      bounds="consumer (2 rounds of peek + extract, then drain) with up to 3 messages inserted by producers at any of its atomic steps; arbitrary timestamps incl. ties, cancelled entries"),
    Q("producer_m3", "c15_queue.c", func="harness_producer", defs={"NM": 3}, stubdirs=["stubs_rg"], unwind=5, timeout=1200, cost=7,
      bounds="one insert interrupted between its load and each CAS attempt by up to 2 other inserts and one consumer extraction (CAS retries <= 4)"),
]

GEOMS = {1: "hexagon", 2: "square", 3: "torus", 4: "ring", 5: "bidring", 6: "star", 7: "mesh", 8: "graph"}
C19_LOOPS = ["harness_consistency.0", "harness_consistency.1", "harness_consistency.2", "mk_rng.0", "mk_topology.0", "get_neighbor_mesh.0", "get_random_neighbor.0",
             "get_random_neighbor.1", "vInitializeTopology.0", "vInitializeTopology.1", "vInitializeTopology.2", "IsNeighbor.0", "IsNeighbor.1",
             "IsNeighbor.2", "IsNeighbor.3", "AddTopologyLink.0", "AddTopologyLink.1", "AddTopologyLink.2", "get_neighbor_graph.0",
             "ReleaseTopology.0", "ReleaseTopology.1", "ReleaseTopology.2", "any_perm.0", "any_perm.1", "CountDirections.0", "CountDirections.1", "memcpy.0"]


def c19(name, func, g, b, tier, timeout=900, **kw):
    return Q(name, "c19_topology.c", tier=tier, func=func, defs={"GEOM": g, "B": b}, unwind=2, unwindset={l: 10 for l in C19_LOOPS},
             spin_loops=["get_neighbor_mesh.0"], timeout=timeout,
             bounds="%s, width/height/regions 1..%d, every source region, every direction, all generator draws (recursion bound 2, proved sufficient by the recursion unwinding assertion)" % (GEOMS[g], b), **kw)


SPECS["C19"] = dict(
    level="model_checking",
    encodes=["lib/topology/topology.c:GetReceiver", "CountDirections", "IsNeighbor", "CountRegions", "get_neighbor_* (all eight geometries)", "get_random_neighbor", "AddTopologyLink", "vInitializeTopology", "ReleaseTopology"],
    assumptions=["Random()/RandomRange() are contract stubs: a deterministic function of the calling LP's generator position over a solver-chosen draw table (C18 discharges the range contract); the rejection loop of the mesh is unwound 10 times",
                 "the topology struct is built directly with a constant geometry (the real initialiser is checked by its own query); graphs are built with the real AddTopologyLink, <= 3 links",
                 "unknown-loop warnings: loop ids listed for geometries that do not use them are ignored by CBMC"],
    outside=["purity of the hexagon geometry (no verdict in 50 min; it shares get_random_neighbor with square/torus, which are decided)", "sizes above the stated bound", "concurrent calls are covered through the purity argument (the result depends on nothing but the caller's generator), not by a thread encoding"],
    queries=[c19("cons_%s_b5" % GEOMS[g], "harness_consistency", g, 5, "quick") for g in range(1, 9)]
    + [c19("init_%s" % GEOMS[g], "harness_init", g, 5, "quick") for g in (2, 4, 8)]
    + [c19("pure_square_b3", "harness_purity", 2, 3, "quick", cost=4), c19("pure_torus_b3", "harness_purity", 3, 3, "quick", cost=4),
]
    + [c19("cons_%s_b9" % GEOMS[g], "harness_consistency", g, 9, "thorough", timeout=1800) for g in range(1, 9)]
    + [c19("pure_square_b4", "harness_purity", 2, 4, "thorough", timeout=2400), c19("pure_torus_b4", "harness_purity", 3, 4, "thorough", timeout=2400)],
)

H4 = {"VERIF_MAX_NODES": 4, "VERIF_MAX_THREADS_EXP": 2}


def pq(name, func, tier="quick", h=4, defs=None, timeout=1500, mem_est=9, **kw):
    d = dict(H4)
    d["H"] = h
    d.update(defs or {})
    return Q(name, "c01_process.c", tier=tier, func=func, defs=d, unwind=max(12, h + 8), timeout=timeout, mem_gb=20, mem_est=mem_est, cost=mem_est,
             bounds=kw.pop("bounds", "one real call from an arbitrary LP history of <= %d entries (processed / local-sent / remote-sent, arbitrary timestamps incl. ties, types, 0..1 payload bytes, arbitrary flag states)" % h), **kw)


P_L1 = pq("L1_match_straggler", "harness_L1", h=5, mem_est=2)
P_L2 = pq("L2_match_anti", "harness_L2", h=5, mem_est=1)
P_L3 = pq("L3_do_rollback", "harness_L3", h=5)
P_L4 = pq("L4_send_anti_messages", "harness_L4", h=5)
P_STEP0 = pq("step_fresh_event", "harness_step", defs={"MODE": 0}, bounds="one real process_msg() of a fresh local event (in order / tie / straggler) from an arbitrary history of <= 4 entries; model schedules 0..2 events; checkpoint interval 1..3")
P_STEP0R = pq("step_fresh_event_remote_sends", "harness_step", defs={"MODE": 0, "REMOTE": None}, bounds="as step_fresh_event, on rank 1 of 2: events scheduled for LP 0 go to another rank")
P_STEP1 = [pq("step_local_anti_ak%s" % ("none" if ak > 3 else ak), "harness_step", defs={"MODE": 1, "AK": ak},
              mem_est=(1 if ak > 3 else 9),
              bounds="one real process_msg() of a cancelled local message: " + ("not yet processed (dropped)" if ak > 3 else "already processed as history entry %d (rollback)" % ak)) for ak in (0, 1, 2, 3, 9)]
P_EARLY = pq("remote_event_vs_early_antis", "harness_early", h=2, mem_est=1, bounds="real check_early_anti_messages: a remote event against 3 parked early anti-messages with arbitrary distinct ids")
P_RANTI = [pq("remote_anti_ak%s" % ("none" if ak > 3 else ak), "harness_ranti", defs={"AK": ak}, mem_est=8,
              bounds="real handle_remote_anti_msg: " + ("event not arrived yet (parked, then annihilates the event)" if ak > 3 else "event is history entry %d among other remote events with different ids" % ak)) for ak in (0, 1, 3, 9)]

PROC_ASSUME = ["message queue, message-buffer free lists, allocator checkpoint take/restore, termination hooks, fossil collection, GVT hook and MPI sends are recording contract stubs (discharged by C15, C05, C07, C13, C04, C02 checks respectively)",
               "history invariant assumed for the pre-state: processed entries pairwise ordered (no later one before an earlier one), newest entry a processed event, sent entries precede the event that sent them; its preservation is asserted by the step queries",
               "composition of the lemmas into the end-to-end equivalence is a written argument (DESIGN.md C01), not machine-checked; the bounded end-to-end run was not tractable"]

SPECS["C01"] = dict(
    level="model_checking",
    encodes=["lp/process.c:process_msg", "match_straggler_msg", "match_anti_msg", "do_rollback", "silent_execution", "send_anti_messages", "handle_straggler_msg", "handle_anti_msg", "ScheduleNewEvent", "checkpoint_take"],
    assumptions=PROC_ASSUME,
    outside=["the end-to-end bounded run (no verdict in the design probes)", "histories longer than the bound", "thread counts > 2 (C06/C15 carry the concurrency part)"],
    level_text="function-level obligations (lemmas L1-L5 of DESIGN.md) on the real lp/process.c decided by CBMC for all histories within the bound; the end-to-end equivalence is argued from them, not machine-checked",
    queries=[P_L1, P_L2, P_L3, P_L4, P_STEP0, P_STEP1[1], P_STEP1[4],
             pq("L1_match_straggler_h7", "harness_L1", tier="thorough", h=7, mem_est=6, timeout=3000, replaces="L1_match_straggler"),
             pq("step_fresh_event_h5", "harness_step", tier="thorough", h=5, defs={"MODE": 0}, mem_est=20, timeout=3600)],
)
SPECS["C03"] = dict(
    level="model_checking",
    encodes=["lp/process.c:process_msg", "match_straggler_msg", "send_anti_messages", "gvt/fossil.c:fossil_lp_collect", "mm/buddy/multi.c:model_allocator_fossil_lp_collect"],
    assumptions=PROC_ASSUME + ["committed = removed by fossil collection: C13's query shows the removed part is a prefix of committed events only"],
    outside=["the end-to-end commit monitor on a bounded run (not tractable)"],
    level_text="lemma level: every LP history is only ever cut at the tail (rollback, to the exact position the event order dictates, ties included) or at the head (fossil collection of a committed prefix); never reordered, duplicated or cut in the middle",
    queries=[P_L1, P_STEP0, SPECS["C13"]["queries"][0]],
)
SPECS["C06"] = dict(
    level="model_checking",
    encodes=["lp/process.c:send_anti_messages", "handle_anti_msg", "handle_remote_anti_msg", "check_early_anti_messages", "process_msg", "lp/msg.h flag word"],
    assumptions=PROC_ASSUME + ["concurrency: each operation touches a buffer's shared flag word by exactly one atomic read-modify-write and decides from its return value only (mover argument, DESIGN.md C06); the single real operations are checked from every flag state"],
    outside=["more than 2 threads interleaving on one buffer", "MPI wire"],
    level_text="single real operations from every flag state of the cancelled buffer (queued, processed, cancelled before/after processing, remote early/late): exactly-once release, exactly-once re-queue, nothing of the kept prefix touched",
    queries=[P_L4] + P_STEP1 + [P_EARLY] + P_RANTI,
)
SPECS["C02"] = dict(
    level="model_checking",
    encodes=["lp/process.c:handle_remote_anti_msg", "check_early_anti_messages", "send_anti_messages (remote branch)"],
    assumptions=PROC_ASSUME + ["component level only: one remote event and its anti-message on the receiving side, all arrival orders; ids of distinct messages are distinct (stamping is gvt.h)"],
    outside=["the end-to-end distributed equivalence", "the distributed GVT message counting", "real MPI", "MAX_THREADS = 4096 id overflow (F10)"],
    level_text="bounded component obligations on the receiving side of remote events/anti-messages (anti-message before, after, or without its event); the end-to-end statement is not encoded",
    queries=[P_EARLY] + P_RANTI + [P_L4, P_STEP0R],
)

FN_NAMES = {0: "Random", 1: "RandomRange", 2: "RandomRangeNonUniform", 3: "Poisson", 4: "Normal", 5: "Gamma", 7: "RandomU64"}


def c09(name, fn, tier="quick", seedk=None, timeout=900):
    d = {"FN": fn}
    if fn == 4:
        d["NOVAL"] = None  # value equality of Normal() is not decided (FP chain); the generator advance is
    if seedk is not None:
        d["SEEDK"] = seedk
    return Q(name, "c09_repeat.c", tier=tier, func="harness_replay", defs=d, unwind=8 if seedk is not None else 2,
             unwindset={} if seedk is not None else {"harness_replay.0": 5, "Gamma.0": 4},
             spin_loops=["Normal.0", "Gamma.1", "Gamma.2"], native=False, timeout=timeout,
             bounds="%s(): draw, speculative continuation, a draw by another LP, rollback of the generator, draw again; %s" % (
                 FN_NAMES[fn], "all 2^256 generator states of both LPs" if seedk is None else "concrete generator states (variant %d), libm uninterpreted" % seedk))


SPECS["C09"] = dict(
    level="model_checking",
    encodes=["lib/random/random.c:random_lib_lp_init", "Random", "RandomU64", "RandomRange", "RandomRangeNonUniform", "Poisson", "Normal", "Gamma", "lib/random/xxtea.c:xxtea_encode"],
    assumptions=["libm log/exp/pow/sqrt are uninterpreted (deterministic) functions in the replay queries",
                 "Normal(): only the generator advance is compared after the rollback (equality of the returned value through log/sqrt/multiply is not decided by any back end)", "Normal() and Gamma() replay queries use concrete generator states (symbolic states: no verdict on any back end); a hidden state outside the generator does not depend on the values drawn",
                 "the generator context lives in rollbackable memory: lp_init/serial init allocate it with rs_malloc (checked in C14's lifecycle query: the generator is seeded in the LP's own memory) and C05 restores every live block",
                 "outcome independence from thread count / checkpoint interval / GVT values rests on C01's lemmas (all of these are arbitrary there)"],
    outside=["Zipf() replay (no verdict)", "core binding", "more than one rank", "the floating-point internals of the automatic checkpoint interval"],
    level_text="seeding is a function of (seed, LP id) for all 2^128 pairs under arbitrary placement globals; every library draw replays after a rollback whatever other LPs did in between (symbolic generator states for the integer/one-multiply functions, concrete states for Normal/Gamma)",
    queries=[
        Q("seed_function_of_seed_and_lp", "c09_repeat.c", func="harness_seed", unwind=40, solver="z3", native=False, timeout=600,
          bounds="all 2^64 seeds x all 2^64 LP ids, two arbitrary different settings of every placement/configuration global"),
        c09("replay_random", 0), c09("replay_u64", 7), c09("replay_range", 1), c09("replay_range_nu", 2), c09("replay_poisson", 3),
        c09("replay_normal_k1", 4, seedk=1), c09("replay_normal_k2", 4, seedk=5), c09("replay_gamma_k1", 5, seedk=1),
        c09("replay_normal_k3", 4, tier="thorough", seedk=11), c09("replay_gamma_k2", 5, tier="thorough", seedk=7),
    ],
)

SPECS["C11"] = dict(
    level="model_checking",
    encodes=["datatypes/msg_queue.c:msg_queue_fini", "mm/msg_allocator.c (all functions)", "mm/buddy/multi.c:rs_realloc accounting vs tree", "lib/random/random.c:Random (shift/overflow checks)",
             "every function listed under the other properties runs with CBMC's bounds, pointer (NULL, dangling, deallocated, out-of-object), signed-overflow, shift and division checks on"],
    assumptions=["C11 is the union of the built-in safety checks of every harness of this framework (they run on the real code paths those harnesses execute) plus the dedicated queries listed here; code no harness reaches (mpi.c wire handling, stats file I/O error paths, arch/*, log.c) is outside",
                 "pointer comparisons between different arenas (buddy_find_by_address) are standard-level UB no sanitizer confirms: arenas are pooled in one object in the harnesses, so CBMC does not see them"],
    outside=["code not reached by any harness", "allocation failure paths", "real 64 KiB arenas"],
    level_text="CBMC's memory-safety and undefined-behaviour checks on every real code path executed by the harnesses of this framework, plus dedicated shutdown-ownership, allocator and generator queries",
    queries=[
        Q("queue_fini", "c11_shutdown.c", func="harness_queue_fini", unwind=6, unwindset={"memcpy.0": 42}, timeout=900,
          bounds="<= 3 messages left in the private heap / inter-thread buffer at shutdown, payload 0..40 bytes (both sides of the inline 32 bytes)"),
        Q("msg_allocator", "c11_shutdown.c", func="harness_allocator", unwind=6, unwindset={"memcpy.0": 42}, timeout=600,
          bounds="3 buffers, payload 0..40, parked until GVT / freed / recycled, arbitrary GVT"),
        c12m("rs_realloc_a2", "harness_realloc", "quick", 2, 4, 1, cost=9),
        c18("random", "harness_random", "quick", bounds="all 2^256 generator states"),
        c05("take_8", "harness_take", "quick", 4, 1, cost=5),
    ],
)


def c04(name, nt, k, tier, timeout=1800, solver="kissat"):
    d = dict(H4)
    d.update({"NT": nt, "K": k})
    return Q(name, "c04_gvt.c", tier=tier, defs=d, unwind=max(k, 4) + 1, solver=solver, native=False, timeout=timeout, cost=9,
             bounds="%d threads, %d scheduler steps (process-a-message / enter round / reduction step), <= 3 pending messages per thread, timestamps over an 8-value ordered domain, staggered round entry" % (nt, k))


SPECS["C04"] = dict(
    level="model_checking",
    encodes=["gvt/gvt.c:gvt_start_processing", "gvt_on_msg_extraction", "gvt_thread_phase_run", "gvt_node_reduce (through reducing_p)", "mm/msg_allocator.c:msg_allocator_on_gvt"],
    assumptions=["threads sequentialised at call granularity (each call performs at most one effectful shared access); thread-local variables of the simulated threads are swapped by the harness",
                 "the per-thread queue is a harness model (pending timestamps, peek = minimum) - the real queue meets it by C15",
                 "finite ordered timestamp domain: the reduction only compares and takes minima, so any violating execution has an order-isomorphic one in the domain (data-independence argument, trusted)",
                 "table sizes shrunk through hook H4 (MAX_THREADS 4, MAX_NODES 4)"],
    outside=["the node-level phases (MPI colour counting, two reductions per round) and messages in MPI flight", "more than 2 threads / more than K steps", "monotonicity across rounds and equality across ranks (whole-round harness not tractable, see DESIGN.md)", "weak memory"],
    level_text="bounded model checking of the real thread-level reduction core under all schedules of the bound: nothing pending or extracted below the reduced minimum; consumers of the GVT (buffer recycling) checked in C11/C13",
    queries=[
        c04("core_t2_k11", 2, 11, "quick", timeout=1200),
        c04("core_t2_k12", 2, 12, "thorough", timeout=3000),
        Q("msg_allocator_on_gvt", "c11_shutdown.c", func="harness_allocator", unwind=6, unwindset={"memcpy.0": 42}, timeout=600,
          bounds="buffers parked until GVT are recycled iff their timestamp is below the GVT"),
    ],
)

SPECS["C04"]["queries"] += [
    Q("node_round_k18", "c04_node.c", tier="quick", defs=dict(H4, K=18), unwind=19, solver="kissat", native=False, timeout=2400, cost=10,
      flags=["--no-standard-checks", "--unwinding-assertions", "--bounds-check"],
      bounds="one worker thread of rank 0 in a 2-rank run, one full GVT round (two reductions, colour flip, sent-count and min reductions with arbitrary completion times) interleaved with message processing, <= 3 local pending and <= 3 remote sends, 18 steps; rank 1 is a passive receiver"),
]
SPECS["C04"]["encodes"] += ["gvt/gvt.c:gvt_phase_run", "gvt_node_phase_run", "gvt/gvt.h:gvt_remote_msg_send"]
SPECS["C04"]["assumptions"] += ["node-level query: rank 1 is a passive receiver; the MPI collectives are harness models (sum-scatter returns this rank's column; all-reduce-min includes every old-colour message, which the receiver has received before contributing, by the colour protocol); completion times arbitrary"]

SPECS["C20"] = dict(
    level="model_checking",
    encodes=["log/stats.c:stats_global_init", "stats_init", "stats_take", "stats_retrieve", "stats_on_gvt", "stats_global_fini", "stats_file_final_write", "log/file.c:file_memory_load", "file_open", "file_write_chunk",
             "lp/process.c:send_anti_messages", "do_rollback", "silent_execution", "process_msg", "checkpoint_take (statistics calls)"],
    assumptions=PROC_ASSUME + ["writer queries: FILE is an in-memory model (tmpfile/fopen/fwrite/fread/fseek/ftell/fclose/setvbuf over byte arrays), timers and memory statistics arbitrary, worker threads sequentialised (each thread: count, then its stats_on_gvt), single rank; the number of GVT rounds and threads is a constant per query so that file offsets stay concrete",
                               "counter queries: stats_take is a counting stub with the semantics of stats.c (add to the current record)",
                               "every thread is told every GVT round exactly once (the shutdown window in which a thread can miss the last round, F6 of DESIGN.md section 6, is outside: C08 is not applicable)"],
    outside=["equal record counts under the shutdown race", "multi-node assembly (stats_files_send/receive)", "the shipped python parser"],
    level_text="the real writer (stats.c + file.c) over an in-memory FILE model produces, for 0..3 GVT rounds and 1-2 threads, a file that a reader written from the documented layout parses exactly (magic, metric names, node and per-thread sections of equal record count, the counted values); each real operation of lp/process.c changes the counters by exactly what happened",
    queries=[P_L4, P_L3, P_STEP0] + [
        Q("writer_g%d_t%d" % (g, t), "c20_stats.c", defs={"G": g, "NT": t}, unwind=14, native=False, timeout=900, mem_est=2,
          unwindset={"memcpy.0": 420, "memset.0": 260, "fwrite.0": 420, "fread.0": 420, "strlen.0": 30, "strnlen.0": 30},
          bounds="%d GVT rounds, %d worker thread(s), 3 arbitrary stats_take calls per thread and round, arbitrary non-decreasing GVT values" % (g, t))
        for (g, t) in ((0, 1), (1, 1), (2, 1), (2, 2), (3, 2))],
)

SPECS["C10"]["queries"] += [
    Q("serial_drain_3_2", "c10_serial.c", defs={"N0": 3, "NSCHED": 2}, unwind=8, timeout=2400, cost=8, mem_est=5,
      bounds="real serial_simulation_run(): <= 3 initial events + 2 events scheduled during the run, 2 LPs, timestamps 0..3 with ties, zero-delay events, 2 types, 0..1 payload bytes, arbitrary GVT-period timer; compared with a textbook event-list executor"),
]
SPECS["C10"]["assumptions"] += ["serial drain: per-LP initialisation/finalisation (LP_INIT/LP_FINI dispatch, generator seeding) is not part of this query; the model respects the API contract 'never schedule an event before the one being processed in the full event order' (the runtime itself checks it in debug builds)"]
SPECS["C10"]["outside"] += ["serial_simulation_init / serial_simulation_fini (LP_INIT once per LP first, LP_FINI once per LP last) are not encoded", "stop conditions (all predicates hold / termination time) are not exercised: predicates are constantly false"]

LEVEL_TEXTS = {
    "C05": "inductive step queries on the real checkpoint code from arbitrary invariant-satisfying trees (traversal, take, restore on 8-16 leaves) plus every (arenas at checkpoint, arenas at rollback) combination of up to 3 arenas; covers call histories of any length inside the shrunk geometry, not the real 64 KiB arena",
    "C07": "bounded model checking of the real termination module: every sequence of up to 5 (thorough 8) forward executions / rollbacks / GVT rounds on 2-3 LPs from the real initialisation, against a ghost monitor written from the property statement",
    "C10": "heap induction (one real insert/extract from an arbitrary heap) plus a bounded drain of the real serial loop compared with an independent textbook executor; initialisation/finalisation and stop conditions are not encoded",
    "C12": "inductive step queries: one real allocator call from an arbitrary state satisfying the representation invariant (single arena up to 64 leaves; up to 3 arenas in any address order), so histories of any length are covered inside the shrunk geometry",
    "C13": "inductive step: one real fossil collection from an arbitrary history and checkpoint log satisfying the structural invariant, followed by an arbitrary legal rollback",
    "C14": "bounded arithmetic: the real lp_global_init / lp_init / lp_fini for every (LPs, ranks, threads, rank, thread, LP) inside the bound; ranges are shown to be exactly the preimages of the routing functions",
    "C15": "sequential rely/guarantee encoding of the real queue: every interleaving in which other threads' whole operations run at each atomic step of the thread under test, plus heap induction; cross interleavings of two multi-step operations rest on the mover argument in DESIGN.md 2.4",
    "C16": "bounded: the real comparison functions on three arbitrary messages for every timestamp, flag, type, size and payload inside the payload bound, against the documented tie-break written independently",
    "C17": "bounded model checking of the real barrier under CBMC's thread encoding: all interleavings (SC; TSO in the thorough tier) of 2-3 threads over 5-9 consecutive uses; spin loops cut after 2 failed iterations (stutter-equivalent)",
    "C18": "bounded: every generator state (raw output over all 2^64 values) for Random/RandomRange/RandomRangeNonUniform; Poisson/Gamma/Zipf under libm contracts and a contract stub of Random(); widths, Gamma order and rejection loops bounded as stated",
    "C19": "bounded: every geometry, size up to 5 (thorough 9), source, direction and draw; the random choice is compared across real intervening queries of another LP (purity) on grids up to 3x3",
}
for _k, _v in LEVEL_TEXTS.items():
    SPECS[_k].setdefault("level_text", _v)
for _k in SPECS:
    SPECS[_k].setdefault("technique", "bounded model checking (CBMC 6.11: goto-cc build of a harness with the real translation units, SAT/SMT verdict over all symbolic inputs within stated bounds, unwinding assertions on; counterexamples replayed natively)")

SPECS["C02"]["queries"] += [
    Q("stamping_ids_and_colours", "c02_stamp.c", defs={"VERIF_MAX_NODES": 4, "VERIF_MAX_THREADS_EXP": 12}, unwind=3, timeout=600,
      bounds="gvt.h stamping/receiving functions for every rank < 4, every thread id < 4096 (the real MAX_THREADS), both colours at send and at cancel time, sequence numbers < 2^16"),
]
SPECS["C02"]["encodes"] += ["gvt/gvt.h:gvt_remote_msg_send", "gvt_remote_anti_msg_send", "gvt_remote_msg_receive", "gvt_remote_anti_msg_receive"]

SPECS["C02"]["queries"] += [
    Q("mpi_wire_p%d" % p, "c02_mpi.c", defs={"PSZ": p, "VERIF_MAX_NODES": 4, "VERIF_MAX_THREADS_EXP": 12}, stubdirs=["stubs_mpi"], unwind=10,
      unwindset={"MPI_Isend.0": 130, "MPI_Mrecv.0": 130, "memcpy.0": 50, "vin_bytes.0": 50}, timeout=900,
      bounds="real mpi.c send/receive/drain of one event with a %d-byte payload, its anti-message and a control message over a one-slot wire model; any sender thread < 4096, any colours, arbitrary content" % p)
    for p in (0, 5, 32, 33, 40)
]
SPECS["C02"]["encodes"] += ["distributed/mpi.c:mpi_remote_msg_send", "mpi_remote_anti_msg_send", "mpi_control_msg_send_to", "mpi_remote_msg_handle", "mpi_remote_msg_drain"]
SPECS["C02"]["assumptions"] += ["<mpi.h> is a stub; the wire is a harness model: one message in flight, delivered as sent (content integrity is MPI's guarantee; delay/reordering are exercised only through the arrival-order cases of the matching queries)"]


# cross-property obligations surfaced by seeded changes
SPECS["C04"]["queries"] += [P_STEP1[1], P_STEP1[4]]   # every extracted message, anti-messages included, is reported to the GVT module
SPECS["C04"]["encodes"] += ["lp/process.c:process_msg (gvt_on_msg_extraction hook)"]
SPECS["C01"]["queries"] += [SPECS["C13"]["queries"][0]]  # fossil collection never reclaims what a later same-timestamp straggler needs
SPECS["C06"]["queries"] += [SPECS["C13"]["queries"][0]]  # ... nor a processed buffer its sender can still cancel

SPECS["C05"]["queries"] += [P_L3]   # coast-forward re-executes exactly the still-valid events (do_rollback/silent_execution)

SPECS["C10"]["queries"] += [
    Q("serial_stop_rule_3_1", "c10_serial.c", defs={"PRED": None, "N0": 3, "NSCHED": 1}, unwind=8, timeout=2400, cost=8, mem_est=5,
      bounds="as serial_drain, with solver-chosen predicate results per (LP, evaluation): the run stops right after the event at which the last LP's predicate first holds, and not earlier; 3 initial + 1 scheduled events"),
]

P_FINI = pq("lp_fini", "harness_lp_fini", h=5, mem_est=3, bounds="real process_lp_fini from an arbitrary history of <= 5 entries (any flag states)")
P_INIT = pq("lp_init", "harness_lp_init", h=2, mem_est=2, bounds="real process_lp_init with a model scheduling 0..2 events at LP_INIT")
SPECS["C06"]["queries"] += [P_FINI]
SPECS["C11"]["queries"] += [P_FINI]
SPECS["C01"]["queries"] += [P_INIT]
SPECS["C13"]["queries"] += [P_INIT]   # the first checkpoint exists: base case of "a checkpoint not after the frontier is kept"


def c09h(name, w, fa, ca, ta, fb, cb, tb, tier="quick"):
    return Q(name, "c09_hosting.c", tier=tier, defs={"W": w, "FA": fa, "CA": ca, "TA": ta, "FB": fb, "CB": cb, "TB": tb, "MAXLP": 3}, unwind=40, solver="z3", native=False, timeout=900,
             bounds="real lp_init: LP %d hosted by (rank range starting at %d with %d LPs, %d threads) and by (start %d, %d LPs, %d threads); all 2^64 seeds; arbitrary rank id / checkpoint interval / GVT period" % (w, fa, ca, ta, fb, cb, tb))


SPECS["C09"]["queries"] += [c09h("hosting_w2_a", 2, 2, 1, 1, 0, 3, 2), c09h("hosting_w3_b", 3, 1, 3, 1, 3, 2, 2), c09h("hosting_w1_c", 1, 0, 2, 2, 1, 1, 1, tier="thorough")]
SPECS["C09"]["encodes"] += ["lp/lp.c:lp_init (generator allocation and seeding)"]
SPECS["C17"]["queries"] += [c17("t1_u5", 1, 5, "quick")]

P_ORDER_EXACT = Q("order_p36_exact_alloc", "c16_order.c", defs={"PLMAX": 36, "EXACT_ALLOC": None}, unwind=38, timeout=900,
                  bounds="as order_p36, with every message allocated with exactly the room msg_allocator_alloc() gives its payload size: the comparison never reads outside a message buffer")
SPECS["C16"]["queries"] += [P_ORDER_EXACT]
SPECS["C11"]["queries"] += [P_ORDER_EXACT]

P_INITORDER = Q("worker_init_fini_order", "c15_init.c", unwind=3, timeout=300,
                bounds="real worker_thread_init / worker_thread_fini of parallel.c with recording stubs and counted barriers, any thread id")
SPECS["C15"]["queries"] += [P_INITORDER]
SPECS["C15"]["encodes"] += ["parallel/parallel.c:worker_thread_init", "worker_thread_fini"]
SPECS["C01"]["queries"] += [P_INITORDER, SPECS["C07"]["queries"][0]]   # a run that ends early ends on a non-sequential state
SPECS["C05"]["queries"] += [q for q in SPECS["C09"]["queries"] if q["name"] in ("replay_normal_k1", "replay_random", "replay_gamma_k1")]   # the random stream after a rollback

SPECS["C02"]["queries"] += [P_STEP1[4], P_STEP1[1]]   # extracted anti-messages are reported to the GVT module too (their rollbacks send remote anti-messages)
