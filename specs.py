"""Query table: property id -> harness queries (see check)."""

COMMON_ASSUMPTIONS = [
    "bounded: every claim holds only inside the bounds listed per query (unwinding assertions on)",
    "sequential consistency (C11 weak-memory reorderings outside every claim)",
    "allocation failure outside every claim (--no-malloc-may-fail; mm_alloc aborts on failure)",
    "stub <immintrin.h>/<x86intrin.h>: _mm_pause no-op, __rdtsc arbitrary value",
    "vlogger/printf have empty bodies; statistics calls are ignored unless the harness links stats.c",
    "build flags as the CMake build: -std=c11 -DNDEBUG, plus -DROOT_SIM_CORE_VERIF for hooks H1/H4",
]

SPECS = {}


def Q(name, harness, tier="quick", **kw):
    d = dict(name=name, harness=harness, tier=tier)
    d.update(kw)
    return d


SPECS["C16"] = dict(
    level="model_checking",
    encodes=["lp/msg.h:msg_is_before", "lp/msg.h:msg_is_before_extended", "datatypes/msg_queue.c:q_elem_is_before"],
    assumptions=["timestamps are not NaN (a model scheduling at NaN violates the API contract)"],
    outside=["payloads longer than the stated bound", "NaN timestamps"],
    queries=[
        Q("order_p8", "c16_order.c", defs={"PLMAX": 8}, unwind=10, bounds="3 arbitrary messages, payload size 0..8, all flags/types/timestamps", timeout=300),
        Q("order_p40", "c16_order.c", tier="thorough", defs={"PLMAX": 40}, unwind=42, bounds="3 arbitrary messages, payload size 0..40 (past the 32-byte inline payload)", timeout=1200),
        Q("order_p64", "c16_order.c", tier="thorough", defs={"PLMAX": 64}, unwind=66, bounds="3 arbitrary messages, payload size 0..64", timeout=1800, solver="kissat"),
    ],
)
